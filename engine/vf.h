// vf.h - shared verification-framework runtime for the cppcms harnesses (header only).
//   * CLI (--tier, --replay), deadline, counters, distinct-outcome sets, guard counters, samples
//   * violation reporting with signatures, known-findings file, replay files
//   * fork-sharded execution with crash isolation (a dying shard is a violation, with the
//     case it announced last)
//   * envx: deviation-bounded / full choice explorer
//   * evidence writer (EVIDENCE.schema.json)
#pragma once
#include <cstdio>
#include <cstdlib>
#include <cstring>
#include <cstdint>
#include <string>
#include <vector>
#include <map>
#include <set>
#include <unordered_set>
#include <functional>
#include <sstream>
#include <fstream>
#include <stdexcept>
#include <algorithm>
#include <chrono>
#include <unistd.h>
#include <signal.h>
#include <sys/wait.h>
#include <sys/mman.h>
#include <sys/stat.h>
#include <sys/types.h>
#include <fcntl.h>

namespace vf {

inline std::string verif_dir() { const char *e=getenv("VERIF_DIR"); return e?e:"/verif"; }

inline uint64_t fnv(const void *p,size_t n,uint64_t h=1469598103934665603ull){
	const unsigned char *c=(const unsigned char*)p; for(size_t i=0;i<n;i++){h^=c[i];h*=1099511628211ull;} return h; }
inline uint64_t fnv(const std::string &s,uint64_t h=1469598103934665603ull){ return fnv(s.data(),s.size(),h); }

inline std::string hex(const std::string &s){ static const char *d="0123456789abcdef"; std::string r; r.reserve(s.size()*2);
	for(unsigned char c: s){ r+=d[c>>4]; r+=d[c&15]; } return r; }
inline std::string unhex(const std::string &s){ std::string r; auto v=[](char c)->int{ if(c>='0'&&c<='9')return c-'0'; if(c>='a'&&c<='f')return c-'a'+10; if(c>='A'&&c<='F')return c-'A'+10; return 0;};
	for(size_t i=0;i+1<s.size();i+=2) r+=(char)(v(s[i])*16+v(s[i+1])); return r; }
inline std::string jstr(const std::string &s){ std::string r="\""; char b[8];
	for(unsigned char c: s){ if(c=='"'||c=='\\'){r+='\\';r+=(char)c;} else if(c<0x20||c>=0x7f){ snprintf(b,sizeof b,"\\u%04x",c); r+=b; } else r+=(char)c; } r+='"'; return r; }
// printable rendering of arbitrary bytes (for samples)
inline std::string vis(const std::string &s){ std::string r; char b[8]; for(unsigned char c: s){ if(c>=0x20&&c<0x7f&&c!='\\') r+=(char)c; else { snprintf(b,sizeof b,"\\x%02x",c); r+=b; } } return r; }

struct Violation { std::string sig, what, replay; };

struct Ctx {
	std::string prop, level, tier="quick"; long seed=0; std::string replay_file, pass, result_file;
	double t0=0, budget_s=0;
	uint64_t evaluations=0, states=0, transitions=0, traces=0;
	std::unordered_set<uint64_t> distinct;
	std::map<std::string,uint64_t> guards;
	std::vector<std::string> samples;      // JSON fragments
	std::map<std::string,Violation> viol;  // by signature
	std::vector<std::string> assumptions;
	std::map<std::string,std::string> extra; // extra coverage keys -> JSON fragment
	std::string rule;
	bool exhaustive=true;
	bool harness_error=false;
	bool in_child=false;
	char *announce=nullptr; // shared slot for the case being run (crash isolation)
};
inline Ctx &C(){ static Ctx c; return c; }

inline double now_s(){ using namespace std::chrono; return duration<double>(steady_clock::now().time_since_epoch()).count(); }
inline bool thorough(){ return C().tier=="thorough"; }
inline bool deadline_reached(){ return C().budget_s>0 && now_s()-C().t0 > C().budget_s; }
inline double elapsed(){ return now_s()-C().t0; }

inline void init(int argc,char **argv,const char *prop,const char *level){
	Ctx &c=C(); c.prop=prop; c.level=level; c.t0=now_s();
	if(const char *e=getenv("VERIF_TIER")) if(*e) c.tier=e;
	if(const char *e=getenv("VERIF_SEED")) c.seed=atol(e);
	for(int i=1;i<argc;i++){ std::string a=argv[i];
		if(a=="--tier"&&i+1<argc) c.tier=argv[++i];
		else if(a=="--replay"&&i+1<argc) c.replay_file=argv[++i];
		else if(a=="--budget"&&i+1<argc) c.budget_s=atof(argv[++i]);
		else if(a=="--pass"&&i+1<argc) c.pass=argv[++i];
		else if(a=="--result"&&i+1<argc) c.result_file=argv[++i];
	}
	if(c.tier!="quick"&&c.tier!="thorough"){ fprintf(stderr,"bad tier %s\n",c.tier.c_str()); exit(2);}
	if(c.budget_s==0){ const char *e=getenv("VERIF_BUDGET_S"); c.budget_s = e?atof(e):(c.tier=="quick"?100:1500); }
	setvbuf(stdout,0,_IOLBF,0);
}

inline void eval(uint64_t n=1){ C().evaluations+=n; }
inline void outcome(uint64_t h){ C().distinct.insert(h); }
inline void outcome(const std::string &s){ C().distinct.insert(fnv(s)); }
inline void guard(const char *name,uint64_t n=1){ C().guards[name]+=n; }
inline void sample(const std::string &json_fragment,size_t max=6){ if(C().samples.size()<max) C().samples.push_back(json_fragment); }
// sample the cases number 0, stride, 2*stride, ... of a stream (keeps samples spread over the enumeration)
inline bool sample_tick(uint64_t &counter,uint64_t stride){ return (counter++ % stride)==0; }
inline void assume(const std::string &s){ for(auto &a:C().assumptions) if(a==s) return; C().assumptions.push_back(s); }
inline void announce(const std::string &s){ if(C().announce){ size_t n=std::min<size_t>(s.size(),4000); memcpy(C().announce+8,s.data(),n); C().announce[8+n]=0; } }
inline void announce(const char *s,size_t n){ if(C().announce){ n=std::min<size_t>(n,4000); memcpy(C().announce+8,s,n); C().announce[8+n]=0; } }

// ---- violations ----------------------------------------------------------------------------
// sig: short stable signature of the failing case class; what: human sentence; replay_json: a JSON
// object fragment (without braces) describing the failing case so --replay can re-execute it.
inline void violation(const std::string &sig,const std::string &what,const std::string &replay_json){
	Ctx &c=C(); if(c.viol.count(sig)) return; if(c.viol.size()>=200) return;
	Violation v; v.sig=sig; v.what=what; v.replay=replay_json; c.viol[sig]=v;
}
inline size_t nviol(){ return C().viol.size(); }

struct Known { std::string prop,sig,status,what; };
inline std::string jfield(const std::string &line,const char *key){ // minimal: "key":"value" with \" escapes
	std::string k=std::string("\"")+key+"\""; size_t p=line.find(k); if(p==std::string::npos) return "";
	p=line.find(':',p+k.size()); if(p==std::string::npos) return ""; p=line.find('"',p); if(p==std::string::npos) return "";
	std::string r; for(size_t i=p+1;i<line.size();i++){ if(line[i]=='\\'&&i+1<line.size()){ r+=line[++i]; continue;} if(line[i]=='"') break; r+=line[i]; } return r; }
inline std::vector<Known> load_known(){ std::vector<Known> r; std::ifstream f(verif_dir()+"/known_findings.jsonl"); std::string l;
	while(std::getline(f,l)){ if(l.find('{')==std::string::npos) continue; Known k; k.prop=jfield(l,"property"); k.sig=jfield(l,"signature"); k.status=jfield(l,"status"); k.what=jfield(l,"what"); r.push_back(k);} return r; }

// ---- (de)serialisation of a child's context -------------------------------------------------
inline void wr(FILE *f,const std::string &s){ uint64_t n=s.size(); fwrite(&n,8,1,f); fwrite(s.data(),1,n,f); }
inline void wr(FILE *f,uint64_t v){ fwrite(&v,8,1,f); }
inline bool rd(FILE *f,uint64_t &v){ return fread(&v,8,1,f)==1; }
inline bool rd(FILE *f,std::string &s){ uint64_t n; if(!rd(f,n)) return false; s.resize(n); return n==0||fread(&s[0],1,n,f)==n; }
inline void dump_ctx(FILE *f){ Ctx &c=C(); wr(f,c.evaluations); wr(f,c.states); wr(f,c.transitions); wr(f,c.traces); wr(f,(uint64_t)c.exhaustive); wr(f,(uint64_t)c.harness_error);
	wr(f,(uint64_t)c.distinct.size()); for(auto h:c.distinct) wr(f,h);
	wr(f,(uint64_t)c.guards.size()); for(auto &g:c.guards){ wr(f,g.first); wr(f,g.second);}
	wr(f,(uint64_t)c.samples.size()); for(auto &s:c.samples) wr(f,s);
	wr(f,(uint64_t)c.viol.size()); for(auto &v:c.viol){ wr(f,v.second.sig); wr(f,v.second.what); wr(f,v.second.replay);}
	wr(f,(uint64_t)c.assumptions.size()); for(auto &s:c.assumptions) wr(f,s);
	wr(f,(uint64_t)0xC0FFEEull); }
inline bool merge_ctx(FILE *f){ Ctx &c=C(); uint64_t v,n; std::string s,t,u;
	if(!rd(f,v)) return false; c.evaluations+=v; rd(f,v); c.states+=v; rd(f,v); c.transitions+=v; rd(f,v); c.traces+=v; rd(f,v); if(!v) c.exhaustive=false; rd(f,v); if(v) c.harness_error=true;
	if(!rd(f,n)) return false; for(uint64_t i=0;i<n;i++){ if(!rd(f,v)) return false; c.distinct.insert(v);}
	if(!rd(f,n)) return false; for(uint64_t i=0;i<n;i++){ rd(f,s); rd(f,v); c.guards[s]+=v; }
	if(!rd(f,n)) return false; for(uint64_t i=0;i<n;i++){ rd(f,s); if(c.samples.size()<6) c.samples.push_back(s); }
	if(!rd(f,n)) return false; for(uint64_t i=0;i<n;i++){ rd(f,s); rd(f,t); rd(f,u); /* several shards may report the same class: keep the smallest counterexample */ std::map<std::string,Violation>::iterator o=c.viol.find(s); if(o!=c.viol.end()&&u.size()<o->second.replay.size()){ o->second.what=t; o->second.replay=u; } else violation(s,t,u); }
	if(!rd(f,n)) return false; for(uint64_t i=0;i<n;i++){ rd(f,s); assume(s); }
	if(!rd(f,v)||v!=0xC0FFEEull) return false; return true; }

inline std::string scratch_dir(){ static std::string d; if(d.empty()){ d=verif_dir()+"/build/scratch/"+std::to_string((long)getpid()); std::string cmd="mkdir -p '"+d+"'"; if(system(cmd.c_str())){} } return d; }
inline void cleanup_scratch(){ std::string d=verif_dir()+"/build/scratch/"+std::to_string((long)getpid()); std::string cmd="rm -rf '"+d+"'"; if(system(cmd.c_str())){} }

// Run fn(shard) for shard in [0,nshards) on up to nproc forked workers. Each child starts from the
// parent's (empty) counters, and its counters are merged at exit. A child that dies abnormally
// (sanitizer abort, signal, uncaught exception, hang past timeout_s) yields a violation whose
// signature is "crash:"+hash(last announced case); stderr of the child goes to a log in replays/.
inline void parallel(int nshards,int nproc,const std::function<void(int)> &fn,double timeout_s=0){
	Ctx &c=C(); if(nproc<1) nproc=1; if(nproc>nshards) nproc=nshards;
	std::string sd=scratch_dir();
	char *slots=(char*)mmap(0,4096*(size_t)nshards,PROT_READ|PROT_WRITE,MAP_SHARED|MAP_ANONYMOUS,-1,0);
	memset(slots,0,4096*(size_t)nshards);
	std::map<pid_t,int> running; std::map<pid_t,double> started; int next=0;
	fflush(stdout); fflush(stderr);
	auto spawn=[&](int sh){ pid_t p=fork(); if(p<0){ perror("fork"); exit(2);} if(p==0){
			// child
			Ctx &k=C(); k.in_child=true; k.evaluations=k.states=k.transitions=k.traces=0; k.distinct.clear(); k.guards.clear(); k.samples.clear(); k.viol.clear();
			k.announce=slots+4096*(size_t)sh;
			std::string log=sd+"/shard"+std::to_string(sh)+".err"; int fd=open(log.c_str(),O_WRONLY|O_CREAT|O_TRUNC,0644); if(fd>=0){ dup2(fd,2); close(fd);}
			try { fn(sh); } catch(std::exception const &e){ fprintf(stderr,"uncaught exception in shard %d: %s\n",sh,e.what()); _exit(86);} catch(...){ fprintf(stderr,"uncaught non-std exception in shard %d\n",sh); _exit(86);}
			std::string out=sd+"/shard"+std::to_string(sh)+".res"; FILE *f=fopen(out.c_str(),"wb"); if(!f) _exit(87); dump_ctx(f); fclose(f); fflush(stdout); _exit(0);
		}
		running[p]=sh; started[p]=now_s(); };
	while(next<nshards||!running.empty()){
		while(next<nshards&&(int)running.size()<nproc) spawn(next++);
		int st=0; pid_t p=waitpid(-1,&st,timeout_s>0?WNOHANG:0);
		if(p==0){ usleep(20000); double t=now_s(); for(auto &r:running) if(t-started[r.first]>timeout_s){ kill(r.first,SIGKILL); slots[4096*(size_t)r.second]=1; } continue; }
		if(p<0) break; if(!running.count(p)) continue; int sh=running[p]; running.erase(p);
		bool ok=WIFEXITED(st)&&WEXITSTATUS(st)==0;
		std::string res=sd+"/shard"+std::to_string(sh)+".res";
		if(ok){ bool he_before=c.harness_error; FILE *f=fopen(res.c_str(),"rb"); if(!f||!merge_ctx(f)){ fprintf(stderr,"harness error: cannot merge shard %d\n",sh); c.harness_error=true;} if(f) fclose(f); unlink(res.c_str()); std::string el=sd+"/shard"+std::to_string(sh)+".err";
			if(c.harness_error&&!he_before){ /* the shard flagged a harness error: its stderr says why */ fprintf(stderr,"harness error reported by shard %d:\n",sh); std::ifstream ef(el); std::string ln; int k=0; while(k<40&&std::getline(ef,ln)){ if(ln.find("harness error")!=std::string::npos||k<10) fprintf(stderr,"  | %s\n",ln.substr(0,300).c_str()); k++; } }
			unlink(el.c_str()); }
		else {
			std::string last=slots+4096*(size_t)sh+8; bool timed=slots[4096*(size_t)sh]==1;
			std::string how = timed? "timeout" : WIFSIGNALED(st)? "signal "+std::to_string(WTERMSIG(st)) : "exit "+std::to_string(WEXITSTATUS(st));
			std::string errlog=sd+"/shard"+std::to_string(sh)+".err"; std::string keep=verif_dir()+"/replays/"+c.prop+"-shard"+std::to_string(sh)+"-"+std::to_string((long)getpid())+".stderr";
			std::string cmd="mkdir -p '"+verif_dir()+"/replays' && tail -c 20000 '"+errlog+"' > '"+keep+"'"; if(system(cmd.c_str())){}
			char sig[64]; snprintf(sig,sizeof sig,"crash:%016llx",(unsigned long long)fnv(last));
			violation(sig,"harness child died ("+how+") while running case: "+last+" ; stderr kept in "+keep,"\"crash\":true,\"case\":"+jstr(last));
			c.exhaustive=false;
		}
	}
	munmap(slots,4096*(size_t)nshards);
}

// ---- envx: choice explorer -------------------------------------------------------------------
struct Envx {
	std::vector<int> prefix, trace, arity; size_t pos=0; bool diverged=false;
	int choose(int n,const char *label=""){ (void)label; if(n<=0) n=1; int v=0; if(pos<prefix.size()){ v=prefix[pos]; if(v>=n){ diverged=true; v=0; } }
		trace.push_back(v); arity.push_back(n); pos++; return v; }
	void begin(const std::vector<int> &p){ prefix=p; trace.clear(); arity.clear(); pos=0; diverged=false; }
	std::string str() const { std::string s; for(size_t i=0;i<trace.size();i++){ if(i) s+=','; s+=std::to_string(trace[i]); } return s; }
};
inline std::vector<int> parse_choices(const std::string &s){ std::vector<int> r; std::stringstream ss(s); std::string t; while(std::getline(ss,t,',')) if(!t.empty()) r.push_back(atoi(t.c_str())); return r; }
// explore all executions of body with at most max_dev non-default choices (max_dev<0: all).
// body(envx) must be deterministic given the choices. Returns number of executions. Stops (returns
// with complete=false) when stop() says so.
inline uint64_t explore(int max_dev,const std::function<void(Envx&)> &body,bool *complete=nullptr,const std::function<bool()> &stop=[](){return false;}){
	std::vector<std::vector<int>> stack; stack.push_back({}); uint64_t runs=0; Envx e; if(complete)*complete=true;
	while(!stack.empty()){
		if(stop()){ if(complete)*complete=false; break; }
		std::vector<int> p=std::move(stack.back()); stack.pop_back();
		e.begin(p); body(e); runs++;
		// a replayed prefix must meet the same choice points again; one retry absorbs a scheduling hiccup of the code under test's own threads, a second divergence is a hard harness error naming the case
		if(e.diverged||e.trace.size()<p.size()){ size_t t1=e.trace.size(); e.begin(p); body(e); runs++; if(e.diverged||e.trace.size()<p.size()){ C().harness_error=true; std::string pc; for(size_t i=0;i<p.size();i++) pc+=(i?",":"")+std::to_string(p[i]); fprintf(stderr,"harness error: choice sequence diverged on replay twice (prefix %zu [%s], traces %zu and %zu) in case: %.300s\n",p.size(),pc.c_str(),t1,e.trace.size(),C().announce?C().announce+8:"?"); continue; } guard("replays_needing_a_retry"); }
		int dev=0; for(size_t i=0;i<p.size();i++) if(e.trace[i]) dev++;
		for(size_t i=e.trace.size();i-->p.size();){
			// deviations before i
			int d=dev; for(size_t j=p.size();j<i;j++) if(e.trace[j]) d++; // always 0 beyond the prefix, kept for clarity
			if(max_dev>=0 && d+1>max_dev) continue;
			for(int alt=e.arity[i]-1;alt>=1;alt--){ std::vector<int> q(e.trace.begin(),e.trace.begin()+i); q.push_back(alt); stack.push_back(std::move(q)); }
		}
	}
	return runs;
}

// Run a sibling binary of this harness built in another flavour (e.g. "rel" for >10^8-case sweeps) as a
// sub-pass; its counters and violations are merged into this run.
inline void run_sub(const std::string &flavour,const std::string &pass){ Ctx &c=C(); std::string res=scratch_dir()+"/sub."+flavour+"."+pass+".res";
	std::string cmd=verif_dir()+"/build/bin/"+c.prop+"."+flavour+" --tier "+c.tier+" --pass "+pass+" --result '"+res+"'";
	fflush(stdout); int st=system(cmd.c_str()); FILE *f=fopen(res.c_str(),"rb");
	if(st!=0||!f||!merge_ctx(f)){ fprintf(stderr,"harness error: sub-pass %s/%s failed (status %d)\n",flavour.c_str(),pass.c_str(),st); c.harness_error=true; }
	if(f) fclose(f); unlink(res.c_str()); }

// ---- finish: evidence + verdict ----------------------------------------------------------------
inline int finish(){
	Ctx &c=C(); std::string vd=verif_dir();
	if(!c.result_file.empty()){ FILE *f=fopen(c.result_file.c_str(),"wb"); if(!f) return 2; dump_ctx(f); fclose(f); std::string keep=c.result_file; if(keep.find(scratch_dir())!=0) cleanup_scratch(); return 0; }
	if(system(("mkdir -p '"+vd+"/evidence' '"+vd+"/replays'").c_str())){}
	std::vector<Known> known=load_known(); int unlisted=0;
	for(auto &kv:c.viol){ Violation &v=kv.second; bool is_known=false; std::string kwhat;
		for(auto &k:known) if(k.prop==c.prop&&k.sig==v.sig&&k.status=="known"){ is_known=true; kwhat=k.what; }
		char name[64]; snprintf(name,sizeof name,"%016llx",(unsigned long long)fnv(v.sig));
		std::string path=vd+"/replays/"+c.prop+"-"+name+".json";
		{ std::ofstream f(path); f<<"{\"property\":"<<jstr(c.prop)<<",\"signature\":"<<jstr(v.sig)<<",\"what\":"<<jstr(v.what)<<","<<(v.replay.empty()?std::string("\"case\":null"):v.replay)<<"}\n"; }
		if(is_known) printf("KNOWN-FINDING: property=%s %s [signature %s]\n",c.prop.c_str(),kwhat.c_str(),v.sig.c_str());
		else { unlisted++; printf("VIOLATION property=%s replay=%s\n",c.prop.c_str(),path.c_str()); printf("  signature: %s\n  what: %s\n",v.sig.c_str(),v.what.c_str()); }
	}
	double wall=elapsed();
	if(c.replay_file.empty()&&c.samples.empty()&&c.viol.empty()){ fprintf(stderr,"harness error: no sample cases were recorded\n"); c.harness_error=true; }
	if(c.replay_file.empty()){
		std::ostringstream o; o<<"{\n \"property_id\": "<<jstr(c.prop)<<",\n \"tier\": "<<jstr(c.tier)<<",\n \"seed\": "<<c.seed<<",\n \"level\": "<<jstr(c.level)<<",\n \"coverage\": {\n";
		if(c.level=="model_checking"){ o<<"  \"states\": "<<c.states<<",\n  \"transitions\": "<<c.transitions<<",\n  \"traces_validated_against_impl\": "<<c.traces<<",\n"; }
		o<<"  \"evaluations\": "<<c.evaluations<<",\n  \"distinct_nontrivial\": "<<c.distinct.size()<<",\n  \"rule\": "<<jstr(c.rule)<<",\n  \"exhaustive\": "<<(c.exhaustive?"true":"false")<<",\n";
		o<<"  \"guards\": {"; bool first=true; for(auto &g:c.guards){ o<<(first?"":", ")<<jstr(g.first)<<": "<<g.second; first=false;} o<<"},\n";
		for(auto &x:c.extra) o<<"  "<<jstr(x.first)<<": "<<x.second<<",\n";
		o<<"  \"samples\": ["; for(size_t i=0;i<c.samples.size();i++) o<<(i?",\n    ":"\n    ")<<c.samples[i]; o<<"\n  ]\n },\n";
		o<<" \"assumptions\": ["; for(size_t i=0;i<c.assumptions.size();i++) o<<(i?", ":"")<<jstr(c.assumptions[i]); o<<"],\n";
		o<<" \"wall_s\": "<<wall<<",\n \"violations\": "<<c.viol.size()<<"\n}\n";
		std::string path=vd+"/evidence/"+c.prop+".json"; std::ofstream f(path+".tmp"); f<<o.str(); f.close(); rename((path+".tmp").c_str(),path.c_str());
	}
	printf("%s %s: evaluations=%llu distinct=%zu states=%llu transitions=%llu violations=%zu exhaustive=%d wall=%.1fs\n",c.prop.c_str(),c.tier.c_str(),(unsigned long long)c.evaluations,c.distinct.size(),(unsigned long long)c.states,(unsigned long long)c.transitions,c.viol.size(),(int)c.exhaustive,wall);
	for(auto &g:c.guards) printf("  guard %s=%llu\n",g.first.c_str(),(unsigned long long)g.second);
	cleanup_scratch();
	// an unlisted violation decides the exit code: a shard that died on a violating case also starves the vacuity guards,
	// which must not turn "exit 1 + VIOLATION" into "exit 2"
	if(unlisted) return 1;
	if(c.harness_error){ printf("HARNESS-ERROR property=%s (see stderr)\n",c.prop.c_str()); return 2; }
	return 0;
}
// vacuity guard: a required guard counter that stayed 0 is a harness error
inline void require_guard(const char *name){ if(C().guards[name]==0){ fprintf(stderr,"harness error: vacuity guard '%s' is 0\n",name); C().harness_error=true; } }

} // namespace vf
