// echo_app.h - applications mounted in the wire harness: they serialise everything the application observes of a
// request as "K hex(V)" lines, so the harness can compare it with a reference CGI mapping of the abstract request.
#pragma once
#include "wire.h"
#include <cppcms/http_file.h>
#include <cppcms/http_cookie.h>
#include <booster/aio/io_service.h>

namespace echo {
static std::atomic<long> g_main_calls(0);
inline void dump_request(cppcms::http::request &rq,std::ostream &out){ using vf::hex;
	out<<"M "<<hex(rq.request_method())<<"\nS "<<hex(rq.script_name())<<"\nP "<<hex(rq.path_info())<<"\nQ "<<hex(rq.query_string())<<"\nT "<<hex(rq.content_type())<<"\nL "<<rq.content_length()<<"\n";
	std::map<std::string,std::string> env=rq.getenv(); for(std::map<std::string,std::string>::iterator i=env.begin();i!=env.end();++i){ if(i->first.compare(0,5,"HTTP_")==0&&i->first!="HTTP_CONNECTION") out<<"E "<<i->first<<" "<<hex(i->second)<<"\n"; }
	/* every variable the environment lists must also be found when looked up by name (both accessors); a discrepancy adds a line the reference never has */ for(std::map<std::string,std::string>::iterator i=env.begin();i!=env.end();++i){ std::string byname=rq.getenv(i->first); const char *cn=rq.cgetenv(i->first.c_str()); std::string cname= cn?cn:"<null>"; if(byname!=i->second||cname!=i->second) out<<"LOOKUP-MISMATCH "<<i->first<<" listed="<<hex(i->second)<<" getenv(name)="<<hex(byname)<<" cgetenv(name)="<<hex(cname)<<"\n"; }
	{ std::vector<std::string> v; for(cppcms::http::request::form_type::const_iterator i=rq.get().begin();i!=rq.get().end();++i) v.push_back(hex(i->first)+"="+hex(i->second)); std::sort(v.begin(),v.end()); for(size_t i=0;i<v.size();i++) out<<"G "<<v[i]<<"\n"; }
	{ std::vector<std::string> v; for(cppcms::http::request::form_type::const_iterator i=rq.post().begin();i!=rq.post().end();++i) v.push_back(hex(i->first)+"="+hex(i->second)); std::sort(v.begin(),v.end()); for(size_t i=0;i<v.size();i++) out<<"F "<<v[i]<<"\n"; }
	{ std::vector<std::string> v; for(cppcms::http::request::cookies_type::const_iterator i=rq.cookies().begin();i!=rq.cookies().end();++i) v.push_back(hex(i->first)+"="+hex(i->second.value())); std::sort(v.begin(),v.end()); for(size_t i=0;i<v.size();i++) out<<"C "<<v[i]<<"\n"; }
	{ std::pair<void*,size_t> r=rq.raw_post_data(); out<<"R "<<hex(std::string((char*)r.first,r.second))<<"\n"; }
	{ cppcms::http::request::files_type f=rq.files(); for(size_t i=0;i<f.size();i++){ std::string data; std::istream &in=f[i]->data(); in.seekg(0); std::streambuf *b=in.rdbuf(); int c; while((c=b->sbumpc())!=EOF) data+=(char)c; out<<"U "<<hex(f[i]->name())<<" "<<hex(f[i]->filename())<<" "<<hex(f[i]->mime())<<" "<<f[i]->size()<<" "<<hex(data)<<"\n"; } }
	// optional: the application saves every uploaded file (query saveto=<directory>): to an existing directory (the file must arrive there complete) or to a
	// directory that does not exist (save_to throws; the application carries on). Either way nothing may stay behind in the uploads directory after the request.
	{ std::string dir=rq.get("saveto"); if(!dir.empty()){ cppcms::http::request::files_type f=rq.files(); for(size_t i=0;i<f.size();i++){ std::string target=dir+"/saved_"+std::to_string(i); try{ f[i]->save_to(target); out<<"SAVED "<<i<<"\n"; }catch(std::exception const &){ out<<"SAVE-FAILED "<<i<<"\n"; } } } }
	out<<"END\n"; }
class sync_echo : public cppcms::application { public: sync_echo(cppcms::service &s):cppcms::application(s){} void main(std::string){ g_main_calls++; response().io_mode(cppcms::http::response::nogzip); response().set_plain_text_header(); dump_request(request(),response().out()); } };
class async_echo : public cppcms::application { public: async_echo(cppcms::service &s):cppcms::application(s){} void main(std::string){ g_main_calls++; response().io_mode(cppcms::http::response::asynchronous); response().set_plain_text_header(); dump_request(request(),response().out()); release_context()->async_complete_response(); } };
inline void mount_echo(cppcms::service &srv){ srv.applications_pool().mount(cppcms::create_pool<sync_echo>(),cppcms::mount_point("/echo")); srv.applications_pool().mount(cppcms::create_pool<async_echo>(),cppcms::mount_point("/aecho"),cppcms::app::asynchronous); srv.applications_pool().mount(cppcms::create_pool<sync_echo>(),cppcms::mount_point("/echo/sub")); }
} // namespace echo
