// wire.h - one real cppcms::service (HTTP on loopback TCP, SCGI and FastCGI on unix sockets) running inside the harness
// process, with the server side's readv()/writev() on accepted descriptors interposed so that the explorer decides
// how many bytes each read returns and each write accepts (environment answers). Used by C01, C02, C03, C12, C13.
#pragma once
#include "vf.h"
#include <cppcms/service.h>
#include <cppcms/application.h>
#include <cppcms/applications_pool.h>
#include <cppcms/mount_point.h>
#include <cppcms/http_request.h>
#include <cppcms/http_response.h>
#include <cppcms/http_context.h>
#include <cppcms/json.h>
#include <thread>
#include <mutex>
#include <atomic>
#include <sys/socket.h>
#include <sys/un.h>
#include <sys/uio.h>
#include <sys/ioctl.h>
#include <sys/syscall.h>
#include <netinet/in.h>
#include <netinet/tcp.h>
#include <arpa/inet.h>
#include <poll.h>
#include <dlfcn.h>
#include <errno.h>
#include <sys/stat.h>

namespace wire {
// ---------------- interposition state --------------------------------------------------------------------------------
static std::mutex g_mx; static std::set<int> g_server_fds; // accepted descriptors
static std::atomic<bool> g_explore_reads(false), g_explore_writes(false);
static vf::Envx *g_envx=0; // current run's chooser (consulted from server threads; accesses are serialised by g_mx)
static std::atomic<long> g_sent_total(0); // bytes the client has queued on the connection under test
static std::map<int,long> g_consumed; // per server fd
static std::atomic<long> g_read_points(0), g_write_points(0), g_partial_reads(0), g_partial_writes(0), g_eagain_reads(0), g_eagain_writes(0);
static std::vector<long> g_forced_cuts; // absolute stream offsets at which a read on the focus connection must stop (a deterministic segmentation, no choice points)
static std::atomic<long> g_forced_cut_reads(0);
static std::vector<long> g_forced_wcuts; // the same for the response stream: offsets at which a server-side write on the focus connection accepts no more
static std::map<int,long> g_written; static std::atomic<long> g_forced_cut_writes(0);
static std::atomic<int> g_focus_fd(-1); // only the connection under test is scripted (probe connections run free)
static std::atomic<bool> g_next_accept_is_focus(false);
static std::vector<long> alt_sizes(long cap){ std::vector<long> a; if(cap<=1) return a; if(cap<=192){ for(long k=1;k<cap;k++) a.push_back(k); return a; } long m[]={1,2,3,7,8,15,16,17,cap/2,255,256,4095,4096,8191,8192,16383,16384,cap-2,cap-1}; std::set<long> s; for(size_t i=0;i<sizeof(m)/sizeof(*m);i++) if(m[i]>=1&&m[i]<cap) s.insert(m[i]); a.assign(s.begin(),s.end()); return a; }
static bool is_nonblocking(int fd){ int fl=fcntl(fd,F_GETFL); return fl>=0&&(fl&O_NONBLOCK); }
} // namespace wire

// the kernel's own short writes / EAGAIN on a full socket buffer are a source of nondeterminism the explorer does not own (they depend on how fast the client drains):
// give every accepted connection a send buffer larger than any response the harnesses produce, so that pass-through writes always complete
static void big_sndbuf(int fd){ int sz=16*1024*1024; if(setsockopt(fd,SOL_SOCKET,SO_SNDBUFFORCE,&sz,sizeof sz)!=0) setsockopt(fd,SOL_SOCKET,SO_SNDBUF,&sz,sizeof sz); }
extern "C" int accept(int fd,struct sockaddr *a,socklen_t *l){ int r=syscall(SYS_accept,fd,a,l); if(r>=0){ big_sndbuf(r); std::lock_guard<std::mutex> g(wire::g_mx); wire::g_server_fds.insert(r); wire::g_consumed[r]=0; wire::g_written[r]=0; if(wire::g_next_accept_is_focus.exchange(false)) wire::g_focus_fd=r; } return r; }
extern "C" int accept4(int fd,struct sockaddr *a,socklen_t *l,int flags){ int r=syscall(SYS_accept4,fd,a,l,flags); if(r>=0){ big_sndbuf(r); std::lock_guard<std::mutex> g(wire::g_mx); wire::g_server_fds.insert(r); wire::g_consumed[r]=0; wire::g_written[r]=0; if(wire::g_next_accept_is_focus.exchange(false)) wire::g_focus_fd=r; } return r; }
extern "C" int close(int fd){ { std::lock_guard<std::mutex> g(wire::g_mx); if(wire::g_server_fds.erase(fd)){ wire::g_consumed.erase(fd); wire::g_written.erase(fd); if(wire::g_focus_fd==fd) wire::g_focus_fd=-1; } } return syscall(SYS_close,fd); }
extern "C" ssize_t readv(int fd,const struct iovec *iov,int cnt){
	bool scripted=false,forced=false; if(fd==wire::g_focus_fd){ std::lock_guard<std::mutex> g(wire::g_mx); forced=!wire::g_forced_cuts.empty(); if(wire::g_explore_reads||forced) scripted=wire::g_server_fds.count(fd)>0; }
	if(!scripted){ ssize_t r=syscall(SYS_readv,fd,iov,cnt); if(r>0){ std::lock_guard<std::mutex> g(wire::g_mx); if(wire::g_consumed.count(fd)) wire::g_consumed[fd]+=r; } return r; }
	long buflen=0; for(int i=0;i<cnt;i++) buflen+=iov[i].iov_len;
	// wait until everything the client queued has arrived, so that the answer menu is the same on every replay
	long want; { std::lock_guard<std::mutex> g(wire::g_mx); want=wire::g_sent_total-wire::g_consumed[fd]; } int avail=0; for(int spin=0;spin<40000;spin++){ ioctl(fd,FIONREAD,&avail); if(avail>=want) break; usleep(50); }
	long cap=std::min<long>(buflen,avail); if(cap<=0) return syscall(SYS_readv,fd,iov,cnt);
	if(forced){ long k=cap; { std::lock_guard<std::mutex> g(wire::g_mx); long pos=wire::g_consumed[fd]; for(size_t i=0;i<wire::g_forced_cuts.size();i++){ long c=wire::g_forced_cuts[i]; if(c>pos&&c<pos+k) k=c-pos; } } if(k<cap) wire::g_forced_cut_reads++; struct iovec tmp[16]; int n=0; long left=k; for(int i=0;i<cnt&&i<16&&left>0;i++){ tmp[n]=iov[i]; if((long)tmp[n].iov_len>left) tmp[n].iov_len=left; left-=tmp[n].iov_len; n++; } ssize_t r=syscall(SYS_readv,fd,tmp,n); if(r>0){ std::lock_guard<std::mutex> g(wire::g_mx); wire::g_consumed[fd]+=r; } return r; }
	std::vector<long> alts=wire::alt_sizes(cap); bool nb=wire::is_nonblocking(fd); int choice; { std::lock_guard<std::mutex> g(wire::g_mx); wire::g_read_points++; choice= wire::g_envx? wire::g_envx->choose(1+alts.size()+(nb?1:0),"readv"):0; }
	if(choice==0){ ssize_t r=syscall(SYS_readv,fd,iov,cnt); if(r>0){ std::lock_guard<std::mutex> g(wire::g_mx); wire::g_consumed[fd]+=r; } return r; }
	if(choice==(int)alts.size()+1){ wire::g_eagain_reads++; errno=EAGAIN; return -1; }
	long k=alts[choice-1]; wire::g_partial_reads++; struct iovec tmp[16]; int n=0; long left=k; for(int i=0;i<cnt&&i<16&&left>0;i++){ tmp[n]=iov[i]; if((long)tmp[n].iov_len>left) tmp[n].iov_len=left; left-=tmp[n].iov_len; n++; }
	ssize_t r=syscall(SYS_readv,fd,tmp,n); if(r>0){ std::lock_guard<std::mutex> g(wire::g_mx); wire::g_consumed[fd]+=r; } return r; }
extern "C" ssize_t writev(int fd,const struct iovec *iov,int cnt){
	bool scripted=false,forced=false; if(fd==wire::g_focus_fd){ std::lock_guard<std::mutex> g(wire::g_mx); forced=!wire::g_forced_wcuts.empty()&&wire::g_server_fds.count(fd)>0; if(wire::g_explore_writes) scripted=wire::g_server_fds.count(fd)>0; }
	if(forced){ long total=0; for(int i=0;i<cnt;i++) total+=iov[i].iov_len; long k=total; { std::lock_guard<std::mutex> g(wire::g_mx); long pos=wire::g_written[fd]; for(size_t i=0;i<wire::g_forced_wcuts.size();i++){ long c=wire::g_forced_wcuts[i]; if(c>pos&&c<pos+k) k=c-pos; } } if(k<total) wire::g_forced_cut_writes++; std::vector<struct iovec> tmp; long left=k; for(int i=0;i<cnt&&left>0;i++){ struct iovec v=iov[i]; if((long)v.iov_len>left) v.iov_len=left; left-=v.iov_len; tmp.push_back(v); } ssize_t r= tmp.empty()? syscall(SYS_writev,fd,iov,cnt) : syscall(SYS_writev,fd,&tmp[0],tmp.size()); if(r>0){ std::lock_guard<std::mutex> g(wire::g_mx); wire::g_written[fd]+=r; } return r; }
	if(!scripted) return syscall(SYS_writev,fd,iov,cnt);
	long total=0; for(int i=0;i<cnt;i++) total+=iov[i].iov_len; if(total<=1) return syscall(SYS_writev,fd,iov,cnt);
	std::set<long> s; s.insert(1); s.insert(total/2); s.insert(total-1); if(total>3){ s.insert(2); } s.erase(0); s.erase(total); std::vector<long> alts(s.begin(),s.end()); bool nb=wire::is_nonblocking(fd); int choice; { std::lock_guard<std::mutex> g(wire::g_mx); wire::g_write_points++; choice= wire::g_envx? wire::g_envx->choose(1+alts.size()+(nb?1:0),"writev"):0; }
	if(choice==0) return syscall(SYS_writev,fd,iov,cnt);
	if(choice==(int)alts.size()+1){ wire::g_eagain_writes++; errno=EAGAIN; return -1; }
	long k=alts[choice-1]; wire::g_partial_writes++; std::vector<struct iovec> tmp; long left=k; for(int i=0;i<cnt&&left>0;i++){ struct iovec v=iov[i]; if((long)v.iov_len>left) v.iov_len=left; left-=v.iov_len; tmp.push_back(v); }
	return syscall(SYS_writev,fd,&tmp[0],tmp.size()); }

namespace wire {
// ---------------- the server ---------------------------------------------------------------------------------------------
struct Server { std::unique_ptr<cppcms::service> srv; std::thread th; int http_port; std::string scgi_path,fcgi_path; std::atomic<bool> run_returned; std::string run_exception; Server():http_port(0),run_returned(false){}
	static bool port_free(int p){ int s=socket(AF_INET,SOCK_STREAM,0); sockaddr_in a; memset(&a,0,sizeof a); a.sin_family=AF_INET; a.sin_port=htons(p); a.sin_addr.s_addr=htonl(INADDR_LOOPBACK); int r=bind(s,(sockaddr*)&a,sizeof a); ::close(s); return r==0; }
	struct whoami : public cppcms::application { whoami(cppcms::service &s):cppcms::application(s){} void main(std::string){ response().io_mode(cppcms::http::response::nogzip); response().out()<<"pid="<<getpid(); } };
	// extra: additional settings merged into the configuration; mount: callback that mounts applications.
	// Ports are derived from the pid (unique among live processes) and verified by asking the server who it is.
	void start(const cppcms::json::value &extra,const std::function<void(cppcms::service&)> &mount){ std::string d=vf::scratch_dir()+"/w"+std::to_string((long)getpid()); mkdir(d.c_str(),0777); scgi_path=d+"/scgi.sock"; fcgi_path=d+"/fcgi.sock"; /* scratch_dir() is the parent's after fork: sockets must be per process */
		for(int attempt=0;attempt<50;attempt++){ http_port=20000+((getpid()+attempt*4099)%40000); if(!port_free(http_port)) continue; cppcms::json::value cfg=extra; unlink(scgi_path.c_str()); unlink(fcgi_path.c_str());
			cfg["service"]["list"][0]["api"]="http"; cfg["service"]["list"][0]["ip"]="127.0.0.1"; cfg["service"]["list"][0]["port"]=http_port; cfg["service"]["list"][1]["api"]="scgi"; cfg["service"]["list"][1]["socket"]=scgi_path; cfg["service"]["list"][2]["api"]="fastcgi"; cfg["service"]["list"][2]["socket"]=fcgi_path;
			if(cfg.find("service.worker_threads").is_undefined()) cfg["service"]["worker_threads"]=1; cfg["service"]["disable_global_exit_handling"]=true; if(cfg.find("logging.level").is_undefined()) cfg["logging"]["level"]="emergency";
			{ cppcms::json::value &sn=cfg["http"]["script_names"]; if(sn.is_undefined()) sn=cppcms::json::array(); sn.array().push_back("/whoami"); }
			run_returned=false; run_exception.clear(); srv.reset(new cppcms::service(cfg)); mount(*srv); srv->applications_pool().mount(cppcms::create_pool<whoami>(),cppcms::mount_point("/whoami"));
			th=std::thread([this](){ try{ srv->run(); }catch(std::exception const &e){ run_exception=e.what(); }catch(...){ run_exception="non-std exception"; } run_returned=true; });
			bool ours=false; for(int i=0;i<400&&!run_returned;i++){ int s=socket(AF_INET,SOCK_STREAM,0); sockaddr_in a; memset(&a,0,sizeof a); a.sin_family=AF_INET; a.sin_port=htons(http_port); a.sin_addr.s_addr=htonl(INADDR_LOOPBACK); int r=connect(s,(sockaddr*)&a,sizeof a); if(r==0&&access(fcgi_path.c_str(),F_OK)==0&&access(scgi_path.c_str(),F_OK)==0){ std::string rq="GET /whoami HTTP/1.0\r\n\r\n",rp; send(s,rq.data(),rq.size(),MSG_NOSIGNAL); char b[512]; ssize_t n; pollfd pf; pf.fd=s; pf.events=POLLIN; while(poll(&pf,1,2000)>0&&(n=recv(s,b,sizeof b,0))>0) rp.append(b,n); ::close(s); ours= rp.find("pid="+std::to_string((long)getpid()))!=std::string::npos; break; } ::close(s); usleep(5000); }
			if(ours) return; stop(); }
		fprintf(stderr,"harness error: could not start a service on a private port\n"); vf::C().harness_error=true; }
	bool hung_at_stop=false;
	// stop the service; if its event loop does not leave run() within 8 s it is stuck: the thread is abandoned (the shard process exits soon after) and the fact recorded
	void stop(){ if(srv){ if(!run_returned) srv->shutdown(); /* service::shutdown() calls exit(1) when run() has already gone (its notification socket is closed) - e.g. after a failed bind */ for(int i=0;i<800&&!run_returned;i++) usleep(10000); if(run_returned){ if(th.joinable()) th.join(); srv.reset(); } else { hung_at_stop=true; th.detach(); srv.release(); } } }
	bool alive() const { return !run_returned; } };

enum Proto { HTTP=0, SCGI=1, FCGI=2 }; static const char *PROTO_NAME[]={"http","scgi","fastcgi"};
static int connect_to(Server &s,Proto p){ int fd; if(p==HTTP){ fd=socket(AF_INET,SOCK_STREAM,0); int one=1; setsockopt(fd,IPPROTO_TCP,TCP_NODELAY,&one,sizeof one); sockaddr_in a; memset(&a,0,sizeof a); a.sin_family=AF_INET; a.sin_port=htons(s.http_port); a.sin_addr.s_addr=htonl(INADDR_LOOPBACK); if(connect(fd,(sockaddr*)&a,sizeof a)<0){ ::close(fd); return -1; } }
	else { fd=socket(AF_UNIX,SOCK_STREAM,0); sockaddr_un a; memset(&a,0,sizeof a); a.sun_family=AF_UNIX; strncpy(a.sun_path,(p==SCGI?s.scgi_path:s.fcgi_path).c_str(),sizeof(a.sun_path)-1); if(connect(fd,(sockaddr*)&a,sizeof a)<0){ ::close(fd); return -1; } } return fd; }
static bool send_all(int fd,const std::string &b){ size_t o=0; while(o<b.size()){ ssize_t r=send(fd,b.data()+o,b.size()-o,MSG_NOSIGNAL); if(r<=0){ if(r<0&&errno==EINTR) continue; return false; } o+=r; } return true; }
// read until `done(buf)` says the response is complete, EOF, or timeout_ms of silence. returns false on timeout.
static bool recv_until(int fd,std::string &buf,const std::function<bool(const std::string&)> &done,int timeout_ms,bool *eof=0){ if(eof)*eof=false; for(;;){ if(done&&done(buf)) return true; pollfd p; p.fd=fd; p.events=POLLIN; p.revents=0; int r=poll(&p,1,timeout_ms); if(r==0) return false; if(r<0){ if(errno==EINTR) continue; return false; } char tmp[65536]; ssize_t n=recv(fd,tmp,sizeof tmp,0); if(n==0){ if(eof)*eof=true; return true; } if(n<0){ if(errno==EINTR||errno==EAGAIN) continue; if(eof)*eof=true; return true; } buf.append(tmp,n); } }

// ---------------- request encoders ------------------------------------------------------------------------------------------
struct Req { std::string method,script,path_info /*decoded*/,raw_path /*as sent in the http request line (after the script name)*/,query,content_type; std::vector<std::pair<std::string,std::string> > headers; /* name as sent, value */ std::string body; bool has_body; bool keep_alive; Req():has_body(false),keep_alive(false){} };
static std::string cgi_name(const std::string &h){ std::string r="HTTP_"; for(size_t i=0;i<h.size();i++){ char c=h[i]; if(c=='-') c='_'; else c=toupper((unsigned char)c); r+=c; } return r; }
static std::string enc_http(const Req &r,bool http11=false,bool fold=false){ std::string s=r.method+" "+r.script+r.raw_path; if(!r.query.empty()||false) { if(!r.query.empty()) s+="?"+r.query; } s+= http11?" HTTP/1.1\r\n":" HTTP/1.0\r\n";
	for(size_t i=0;i<r.headers.size();i++){ std::string v=r.headers[i].second; if(fold){ size_t sp=v.find(' '); if(sp!=std::string::npos&&sp>0) v=v.substr(0,sp)+"\r\n"+v.substr(sp); } s+=r.headers[i].first+": "+v+"\r\n"; }
	if(!r.content_type.empty()) s+="Content-Type: "+r.content_type+"\r\n"; if(r.has_body) s+="Content-Length: "+std::to_string(r.body.size())+"\r\n"; s+= r.keep_alive?"Connection: keep-alive\r\n":"Connection: close\r\n"; s+="\r\n"; s+=r.body; return s; }
static std::vector<std::pair<std::string,std::string> > cgi_env(const Req &r){ std::vector<std::pair<std::string,std::string> > e; e.push_back(std::make_pair("CONTENT_LENGTH",std::to_string(r.has_body?r.body.size():0))); e.push_back(std::make_pair("SCGI","1")); e.push_back(std::make_pair("REQUEST_METHOD",r.method)); e.push_back(std::make_pair("SCRIPT_NAME",r.script)); e.push_back(std::make_pair("PATH_INFO",r.path_info)); e.push_back(std::make_pair("QUERY_STRING",r.query)); e.push_back(std::make_pair("REQUEST_URI",r.script+r.raw_path+(r.query.empty()?"":"?"+r.query)));
	if(!r.content_type.empty()) e.push_back(std::make_pair("CONTENT_TYPE",r.content_type)); e.push_back(std::make_pair("SERVER_PROTOCOL","HTTP/1.0")); e.push_back(std::make_pair("REMOTE_ADDR","127.0.0.1")); for(size_t i=0;i<r.headers.size();i++) e.push_back(std::make_pair(cgi_name(r.headers[i].first),r.headers[i].second)); e.push_back(std::make_pair("HTTP_CONNECTION",r.keep_alive?"keep-alive":"close")); return e; }
static std::string enc_scgi(const Req &r){ std::string h; std::vector<std::pair<std::string,std::string> > e=cgi_env(r); for(size_t i=0;i<e.size();i++){ h+=e[i].first; h+='\0'; h+=e[i].second; h+='\0'; } return std::to_string(h.size())+":"+h+","+r.body; }
static std::string fcgi_rec(int type,int id,const std::string &content,int pad=0){ std::string s; s+=(char)1; s+=(char)type; s+=(char)(id>>8); s+=(char)(id&255); s+=(char)(content.size()>>8); s+=(char)(content.size()&255); s+=(char)pad; s+=(char)0; s+=content; s+=std::string(pad,'\xEE'); return s; }
static std::string fcgi_len(size_t n,bool force4){ std::string s; if(n<128&&!force4) s+=(char)n; else { s+=(char)(0x80|(n>>24)); s+=(char)((n>>16)&255); s+=(char)((n>>8)&255); s+=(char)(n&255); } return s; }
static std::string fcgi_params(const Req &r,bool force4=false){ std::string p; std::vector<std::pair<std::string,std::string> > e=cgi_env(r); for(size_t i=0;i<e.size();i++){ if(e[i].first=="SCGI") continue; p+=fcgi_len(e[i].first.size(),force4)+fcgi_len(e[i].second.size(),force4)+e[i].first+e[i].second; } return p; }
// cuts: positions at which PARAMS / STDIN streams are cut into records
static std::string enc_fcgi(const Req &r,const std::vector<size_t> &pcuts=std::vector<size_t>(),const std::vector<size_t> &scuts=std::vector<size_t>(),int pad=0,bool force4=false,bool keep_conn=false,int id=1,bool filler=false){ std::string s; std::string begin; begin+=(char)0; begin+=(char)1; begin+=(char)(keep_conn?1:0); begin+=std::string(5,'\0'); s+=fcgi_rec(1,id,begin);
	std::string p=fcgi_params(r,force4); size_t last=0; for(size_t i=0;i<pcuts.size();i++){ size_t c=std::min(pcuts[i],p.size()); if(c>last){ s+=fcgi_rec(4,id,p.substr(last,c-last),pad); last=c; } } while(last<p.size()){ size_t n=std::min<size_t>(65535,p.size()-last); s+=fcgi_rec(4,id,p.substr(last,n),pad); last+=n; } s+=fcgi_rec(4,id,"");
	if(filler) s+=fcgi_rec(5,id,"",pad); // nothing: an empty STDIN only terminates - do not emit
	last=0; for(size_t i=0;i<scuts.size();i++){ size_t c=std::min(scuts[i],r.body.size()); if(c>last){ s+=fcgi_rec(5,id,r.body.substr(last,c-last),pad); last=c; } } while(last<r.body.size()){ size_t n=std::min<size_t>(65535,r.body.size()-last); s+=fcgi_rec(5,id,r.body.substr(last,n),pad); last+=n; } s+=fcgi_rec(5,id,""); return s; }

// ---------------- response de-framing -----------------------------------------------------------------------------------------------
struct Resp { bool ok; std::string err; int status; std::vector<std::pair<std::string,std::string> > headers; std::string body; size_t consumed; bool chunked,has_length,close_delimited; Resp():ok(false),status(0),consumed(0),chunked(false),has_length(false),close_delimited(false){} std::string header(const std::string &n) const { for(size_t i=0;i<headers.size();i++) if(strcasecmp(headers[i].first.c_str(),n.c_str())==0) return headers[i].second; return ""; } int count(const std::string &n) const { int c=0; for(size_t i=0;i<headers.size();i++) if(strcasecmp(headers[i].first.c_str(),n.c_str())==0) c++; return c; } };
static bool parse_header_block(const std::string &b,size_t &pos,Resp &r,bool http){ size_t e=b.find("\r\n\r\n",pos); if(e==std::string::npos){ r.err="no header terminator"; return false; } std::string block=b.substr(pos,e-pos); pos=e+4; size_t p=0; bool first=true; r.status=200; while(p<=block.size()){ size_t q=block.find("\r\n",p); if(q==std::string::npos) q=block.size(); std::string line=block.substr(p,q-p); p=q+2; if(line.empty()) break;
		if(first&&http){ first=false; if(line.compare(0,5,"HTTP/")){ r.err="bad status line: "+line; return false; } size_t sp=line.find(' '); r.status=atoi(line.c_str()+sp+1); continue; } first=false; size_t c=line.find(':'); if(c==std::string::npos){ r.err="bad header line: "+line; return false; } std::string n=line.substr(0,c),v=line.substr(c+1); while(!v.empty()&&v[0]==' ') v.erase(0,1); r.headers.push_back(std::make_pair(n,v)); if(!http&&strcasecmp(n.c_str(),"Status")==0) r.status=atoi(v.c_str()); if(q>=block.size()) break; } return true; }
// parse one HTTP response starting at b[pos]; at_eof: the connection was closed after the data
static Resp parse_http(const std::string &b,size_t pos,bool at_eof){ Resp r; size_t p=pos; if(!parse_header_block(b,p,r,true)) return r; std::string te=r.header("Transfer-Encoding"),cl=r.header("Content-Length");
	if(strcasecmp(te.c_str(),"chunked")==0){ r.chunked=true; for(;;){ size_t q=b.find("\r\n",p); if(q==std::string::npos){ r.err="truncated chunk header"; return r; } std::string hx=b.substr(p,q-p); char *endp=0; unsigned long n=strtoul(hx.c_str(),&endp,16); if(endp==hx.c_str()||*endp){ r.err="bad chunk size '"+hx+"'"; return r; } p=q+2; if(n==0){ if(b.compare(p,2,"\r\n")){ r.err="missing CRLF after last chunk"; return r; } p+=2; break; } if(p+n+2>b.size()){ r.err="truncated chunk"; return r; } r.body.append(b,p,n); p+=n; if(b.compare(p,2,"\r\n")){ r.err="missing CRLF after chunk data"; return r; } p+=2; } }
	else if(!cl.empty()){ r.has_length=true; size_t n=strtoul(cl.c_str(),0,10); if(p+n>b.size()){ r.err="body shorter than Content-Length ("+std::to_string(b.size()-p)+" < "+cl+")"; return r; } r.body=b.substr(p,n); p+=n; }
	else { r.close_delimited=true; if(!at_eof){ r.err="neither Content-Length nor chunked on an open connection"; return r; } r.body=b.substr(p); p=b.size(); }
	r.consumed=p-pos; r.ok=true; return r; }
static Resp parse_cgi(const std::string &b){ Resp r; size_t p=0; if(!parse_header_block(b,p,r,false)) return r; r.body=b.substr(p); r.consumed=b.size(); r.ok=true; r.close_delimited=true; return r; }
// FastCGI: reassemble STDOUT; checks framing
struct FcgiOut { bool ok; std::string err,out,errstream; int end_requests; int app_status; int proto_status; size_t stdout_records; bool stdout_terminated; size_t consumed; size_t max_record; FcgiOut():ok(false),end_requests(0),app_status(-1),proto_status(-1),stdout_records(0),stdout_terminated(false),consumed(0),max_record(0){} };
static FcgiOut parse_fcgi(const std::string &b,int id=1){ FcgiOut f; size_t p=0; while(p<b.size()){ if(b.size()-p<8){ f.err="truncated record header"; return f; } unsigned char ver=b[p],type=b[p+1]; int rid=((unsigned char)b[p+2]<<8)|(unsigned char)b[p+3]; size_t len=((unsigned char)b[p+4]<<8)|(unsigned char)b[p+5]; size_t pad=(unsigned char)b[p+6]; if(ver!=1){ f.err="record version != 1"; return f; } if(b.size()-p-8<len+pad){ f.err="truncated record body"; return f; } std::string c=b.substr(p+8,len); p+=8+len+pad;
		if(type==6){ if(id>=0&&rid!=id){ f.err="STDOUT for another request id"; return f; } if(f.end_requests){ f.err="STDOUT after END_REQUEST"; return f; } if(f.stdout_terminated&&len){ f.err="STDOUT data after the empty terminator"; return f; } if(len==0) f.stdout_terminated=true; else { f.out+=c; f.stdout_records++; f.max_record=std::max(f.max_record,len); } }
		else if(type==7){ f.errstream+=c; } else if(type==3){ if(id>=0&&rid!=id){ f.err="END_REQUEST for another request id"; return f; } f.end_requests++; if(len!=8){ f.err="END_REQUEST body != 8 bytes"; return f; } f.app_status=((unsigned char)c[0]<<24)|((unsigned char)c[1]<<16)|((unsigned char)c[2]<<8)|(unsigned char)c[3]; f.proto_status=(unsigned char)c[4]; f.consumed=p; f.ok=true; return f; }
		else if(type==10||type==11){ /* management replies */ } else { f.err="unexpected record type "+std::to_string(type); return f; } }
	f.err="no END_REQUEST"; f.consumed=p; return f; }
static bool fcgi_complete(const std::string &b){ size_t p=0; while(b.size()-p>=8){ size_t len=((unsigned char)b[p+4]<<8)|(unsigned char)b[p+5]; size_t pad=(unsigned char)b[p+6]; if(b.size()-p-8<len+pad) return false; if((unsigned char)b[p+1]==3) return true; p+=8+len+pad; } return false; }

// one exchange on a fresh connection: queue all bytes, (optionally half-close), collect the reply
struct Exchange { bool connected,sent,timed_out,eof; std::string reply; Exchange():connected(false),sent(false),timed_out(false),eof(false){} };
static Exchange exchange(Server &s,Proto p,const std::string &bytes,bool half_close,int timeout_ms,bool focus,const std::function<bool(const std::string&)> &done=std::function<bool(const std::string&)>()){ Exchange x; if(focus){ g_focus_fd=-1; g_sent_total=bytes.size(); g_next_accept_is_focus=true; }
	int fd=connect_to(s,p); if(fd<0){ g_next_accept_is_focus=false; return x; } x.connected=true; x.sent=send_all(fd,bytes); if(half_close) shutdown(fd,SHUT_WR); bool eof=false; bool ok=recv_until(fd,x.reply,done,timeout_ms,&eof); x.timed_out=!ok; x.eof=eof; ::close(fd); if(focus){ g_next_accept_is_focus=false; } return x; }
} // namespace wire
