// sched.h - preemption-bounded cooperative scheduler over real pthreads (stateless model checking of the implementation).
// Test threads are real threads, but exactly one runs at a time: every interposed synchronisation operation
// (pthread mutex / rwlock / condition variable) is a scheduling point at which the running thread publishes the operation
// it is about to perform and the scheduler picks the next thread among the ENABLED ones (a thread is enabled iff its
// pending operation can complete on the scheduler's own model of the lock tables; the real primitives are never
// contended). The explorer enumerates schedules depth-first with an iterated preemption bound (switching away from a
// thread that is still enabled costs one preemption). No enabled thread while some are unfinished = deadlock.
// Threads not registered with the scheduler (and everything while no exploration is active) use the real primitives.
#pragma once
#include "vf.h"
#include <pthread.h>
#include <dlfcn.h>
#include <thread>
#include <atomic>
#include <condition_variable>
#include <poll.h>
#include <sys/epoll.h>
#include <sys/select.h>
#include <sys/time.h>
#include <sys/syscall.h>

namespace sched {
typedef int (*mutex_fn)(pthread_mutex_t*); typedef int (*rw_fn)(pthread_rwlock_t*); typedef int (*cw_fn)(pthread_cond_t*,pthread_mutex_t*); typedef int (*c_fn)(pthread_cond_t*);
static mutex_fn real_mlock,real_munlock,real_mtrylock; static rw_fn real_rd,real_wr,real_rwunlock; static cw_fn real_cwait; static c_fn real_csignal,real_cbroadcast;
static void resolve(){ static bool done=false; if(done) return; done=true; real_mlock=(mutex_fn)dlsym(RTLD_NEXT,"pthread_mutex_lock"); real_munlock=(mutex_fn)dlsym(RTLD_NEXT,"pthread_mutex_unlock"); real_mtrylock=(mutex_fn)dlsym(RTLD_NEXT,"pthread_mutex_trylock"); real_rd=(rw_fn)dlsym(RTLD_NEXT,"pthread_rwlock_rdlock"); real_wr=(rw_fn)dlsym(RTLD_NEXT,"pthread_rwlock_wrlock"); real_rwunlock=(rw_fn)dlsym(RTLD_NEXT,"pthread_rwlock_unlock"); real_cwait=(cw_fn)dlsym(RTLD_NEXT,"pthread_cond_wait"); real_csignal=(c_fn)dlsym(RTLD_NEXT,"pthread_cond_signal"); real_cbroadcast=(c_fn)dlsym(RTLD_NEXT,"pthread_cond_broadcast"); }

enum OpKind { OP_NONE, OP_MLOCK, OP_MUNLOCK, OP_RDLOCK, OP_WRLOCK, OP_RWUNLOCK, OP_CWAIT, OP_CREACQ, OP_CSIGNAL, OP_CBROADCAST, OP_START, OP_YIELD, OP_POLL, OP_JOIN };
struct Thread { pthread_cond_t tcv; int id; std::thread th; pthread_t pth; bool adopted; OpKind pending; void *obj; void *obj2; bool finished; bool waiting_cond; std::function<void()> body; std::function<bool()> probe; long long deadline_ms; /* virtual, -1 = none */ int join_target; void *(*start)(void*); void *arg; Thread():id(0),adopted(false),pending(OP_NONE),obj(0),obj2(0),finished(false),waiting_cond(false),deadline_ms(-1),join_target(-1),start(0),arg(0){ pthread_cond_init(&tcv,0); } };
struct MutexSt { int owner; int count; MutexSt():owner(-1),count(0){} }; struct RwSt { int writer; std::map<int,int> readers; RwSt():writer(-1){} };
struct Point { int n; bool current_enabled; int chosen; };
struct State { bool active; std::vector<Thread*> threads; int current; pthread_mutex_t mx; pthread_cond_t cv; std::map<void*,MutexSt> mutexes; std::map<void*,RwSt> rwlocks; std::map<void*,std::vector<int> > cond_waiters; std::vector<int> prefix; std::vector<Point> points; bool deadlock; bool diverged; std::string trace; uint64_t readers_overlap,writer_waited; long long vnow_ms; bool virtual_clock; long long horizon_ms; int horizon_jumps; int time_advances; bool adopt_threads; State():active(false),current(-1),deadlock(false),diverged(false),readers_overlap(0),writer_waited(0),vnow_ms(0),virtual_clock(false),horizon_ms(600000),horizon_jumps(0),time_advances(0),adopt_threads(false){ pthread_mutex_init(&mx,0); pthread_cond_init(&cv,0); } };
static State G; static thread_local int tl_id=-1; static thread_local bool tl_in_sched=false; /* the calling thread is inside the scheduler (instrumentation hooks must not re-enter) */ struct InSched { bool prev; InSched():prev(tl_in_sched){ tl_in_sched=true; } ~InSched(){ tl_in_sched=prev; } };

static void wake_all(){ for(size_t i=0;i<G.threads.size();i++) real_csignal(&G.threads[i]->tcv); real_cbroadcast(&G.cv); }
static bool enabled(Thread *t){ if(t->finished) return false; switch(t->pending){ case OP_MLOCK: case OP_CREACQ: { MutexSt &m=G.mutexes[t->obj]; return m.owner<0||m.owner==t->id; } case OP_RDLOCK:{ RwSt &r=G.rwlocks[t->obj]; return r.writer<0; } case OP_WRLOCK:{ RwSt &r=G.rwlocks[t->obj]; return r.writer<0&&r.readers.empty(); } case OP_CWAIT: return false; /* until signalled (turned into OP_CREACQ) */ case OP_JOIN: return t->join_target<0||G.threads[t->join_target]->finished; case OP_POLL: return (t->deadline_ms>=0&&G.vnow_ms>=t->deadline_ms)||(t->probe&&t->probe()); default: return true; } }
// apply the pending operation of t to the model (called by t itself when it holds the baton)
static void apply(Thread *t){ switch(t->pending){ case OP_MLOCK: case OP_CREACQ:{ MutexSt &m=G.mutexes[t->obj]; m.owner=t->id; m.count++; break; } case OP_MUNLOCK:{ MutexSt &m=G.mutexes[t->obj]; if(m.owner==t->id&&--m.count==0) m.owner=-1; break; }
	case OP_RDLOCK:{ RwSt &r=G.rwlocks[t->obj]; r.readers[t->id]++; if(r.readers.size()>1) G.readers_overlap++; break; } case OP_WRLOCK:{ G.rwlocks[t->obj].writer=t->id; break; } case OP_RWUNLOCK:{ RwSt &r=G.rwlocks[t->obj]; if(r.writer==t->id) r.writer=-1; else { std::map<int,int>::iterator i=r.readers.find(t->id); if(i!=r.readers.end()&&--i->second==0) r.readers.erase(i); } break; }
	case OP_CSIGNAL:{ std::vector<int> &w=G.cond_waiters[t->obj]; if(!w.empty()){ int id=w.front(); w.erase(w.begin()); G.threads[id]->pending=OP_CREACQ; G.threads[id]->obj=G.threads[id]->obj2; } break; } case OP_CBROADCAST:{ std::vector<int> &w=G.cond_waiters[t->obj]; for(size_t i=0;i<w.size();i++){ G.threads[w[i]]->pending=OP_CREACQ; G.threads[w[i]]->obj=G.threads[w[i]]->obj2; } w.clear(); break; } default: break; }
	t->pending=OP_NONE; }
// pick the next thread to run; called with G.mx held by the thread that reached a scheduling point (or finished)
static void schedule_next(){ std::vector<int> en; Thread *cur= G.current>=0?G.threads[G.current]:0; bool cur_en= cur&&enabled(cur); if(cur_en) en.push_back(cur->id); for(size_t i=0;i<G.threads.size();i++) if((int)i!=G.current&&enabled(G.threads[i])) en.push_back(i);
	// a timed wait whose deadline has not come yet: advancing the virtual clock to the earliest such deadline is one more alternative
	int timed=-1; long long best=-1; for(size_t i=0;i<G.threads.size();i++){ Thread *t=G.threads[i]; if(!t->finished&&t->pending==OP_POLL&&t->deadline_ms>=0&&G.vnow_ms<t->deadline_ms&&!enabled(t)&&(best<0||t->deadline_ms<best)){ best=t->deadline_ms; timed=i; } }
	if(en.empty()&&timed>=0){ if(best-G.vnow_ms>=G.horizon_ms) G.horizon_jumps++; G.vnow_ms=best; G.time_advances++; en.push_back(timed); timed=-1; }
	if(en.empty()){ bool all=true; for(size_t i=0;i<G.threads.size();i++) if(!G.threads[i]->finished) all=false; if(!all){ /* deadlock: threads cannot be unwound; report and leave the process (the fork supervisor turns this into a violation with the announced program) */ std::string ch; for(size_t i=0;i<G.points.size();i++) ch+=(i?",":"")+std::to_string(G.points[i].chosen); fprintf(stderr,"DEADLOCK: no enabled thread; schedule=%s\n",ch.c_str()); for(size_t i=0;i<G.threads.size();i++) fprintf(stderr,"  thread %zu: finished=%d pending=%d obj=%p\n",i,(int)G.threads[i]->finished,(int)G.threads[i]->pending,G.threads[i]->obj); fflush(stderr); _exit(97); } G.current=-2; /* everybody finished */ wake_all(); return; }
	bool time_alt= timed>=0&&best-G.vnow_ms<G.horizon_ms; if(time_alt) en.push_back(-1-timed); // encoded alternative: advance the clock, then run that thread
	int choice=0; if(en.size()>1){ size_t pi=G.points.size(); if(pi<G.prefix.size()){ choice=G.prefix[pi]; if(choice>=(int)en.size()){ G.diverged=true; choice=0; } } Point p; p.n=en.size(); p.current_enabled=cur_en; p.chosen=choice; G.points.push_back(p); }
	for(size_t i=0;i<G.threads.size();i++){ Thread *t=G.threads[i]; if(!t->finished&&t->pending==OP_WRLOCK&&!enabled(t)&&!G.rwlocks[t->obj].readers.empty()) G.writer_waited++; }
	int pick=en[choice]; if(pick<0){ int t=-1-pick; G.vnow_ms=G.threads[t]->deadline_ms; G.time_advances++; pick=t; } G.current=pick; real_csignal(&G.threads[pick]->tcv); }
// each thread sleeps on its own condition variable: handing over the baton wakes exactly one thread
static void wait_turn(int id){ Thread *t=G.threads[id]; while(G.current!=id&&G.current!=-2) real_cwait(&t->tcv,&G.mx); }

// a scheduling point of the calling (registered) thread
static void point(OpKind k,void *obj,void *obj2=0){ InSched guard_in_sched; Thread *t=G.threads[tl_id]; real_mlock(&G.mx); t->pending=k; t->obj=obj; t->obj2=obj2; if(k==OP_CWAIT){ /* release the mutex and join the wait set before anybody else runs */ MutexSt &m=G.mutexes[obj2]; if(m.owner==t->id&&--m.count==0) m.owner=-1; G.cond_waiters[obj].push_back(t->id); }
	schedule_next(); wait_turn(t->id); if(G.current==-2){ /* deadlock: let everybody run out (operations become no-ops on the model) */ t->pending=OP_NONE; real_munlock(&G.mx); return; } apply(t); real_munlock(&G.mx); }
static void thread_main(Thread *t){ tl_id=t->id; real_mlock(&G.mx); wait_turn(t->id); real_munlock(&G.mx); if(G.current!=-2){ try{ t->body(); }catch(...){ } } real_mlock(&G.mx); t->finished=true; t->pending=OP_NONE; if(G.current==t->id) schedule_next(); real_munlock(&G.mx); tl_id=-1; }

struct Result { bool deadlock,diverged; std::vector<Point> points; std::string choices; int horizon_jumps,time_advances; long long vnow_ms; };
// run the bodies under the schedule given by `prefix` (choice index at every point with > 1 enabled threads; 0 afterwards)
static Result run(const std::vector<std::function<void()> > &bodies,const std::vector<int> &prefix){ resolve(); G.threads.clear(); G.mutexes.clear(); G.rwlocks.clear(); G.cond_waiters.clear(); G.points.clear(); G.prefix=prefix; G.deadlock=false; G.diverged=false; G.current=-1; G.vnow_ms=0; G.horizon_jumps=0; G.time_advances=0; std::vector<Thread*> ts; for(size_t i=0;i<bodies.size();i++){ Thread *t=new Thread(); t->id=i; t->body=bodies[i]; t->pending=OP_START; ts.push_back(t); } G.threads=ts; G.active=true;
	for(size_t i=0;i<ts.size();i++) ts[i]->th=std::thread(thread_main,ts[i]); real_mlock(&G.mx); schedule_next(); real_munlock(&G.mx); for(size_t i=0;i<ts.size();i++) ts[i]->th.join(); /* adopted threads (created by the code under test) are joined by that code; wait until they are marked finished */ for(;;){ bool all=true; real_mlock(&G.mx); for(size_t i=0;i<G.threads.size();i++) if(!G.threads[i]->finished) all=false; real_munlock(&G.mx); if(all) break; usleep(100); } G.active=false; ts=G.threads;
	Result r; r.deadlock=G.deadlock; r.diverged=G.diverged; r.points=G.points; r.horizon_jumps=G.horizon_jumps; r.time_advances=G.time_advances; r.vnow_ms=G.vnow_ms; for(size_t i=0;i<G.points.size();i++){ if(i) r.choices+=","; r.choices+=std::to_string(G.points[i].chosen); } for(size_t i=0;i<ts.size();i++) delete ts[i]; G.threads.clear(); return r; }
// explore all schedules with at most `bound` preemptions (bound<0: all). body_factory() builds fresh bodies (and fresh shared state)
// for every execution; after(result) checks it. Returns number of executions; *complete=false if stopped early.
static uint64_t explore(int bound,const std::function<std::vector<std::function<void()> >()> &factory,const std::function<void(const Result&)> &after,bool *complete=0,const std::function<bool()> &stop=[](){return false;}){ std::vector<std::vector<int> > stack; stack.push_back(std::vector<int>()); uint64_t runs=0; if(complete) *complete=true;
	while(!stack.empty()){ if(stop()){ if(complete) *complete=false; break; } std::vector<int> p=stack.back(); stack.pop_back(); Result r=run(factory(),p); runs++; if(r.diverged||r.points.size()<p.size()){ vf::C().harness_error=true; fprintf(stderr,"harness error: schedule diverged on replay\n"); continue; } after(r);
		int cost=0; for(size_t i=0;i<p.size();i++) if(r.points[i].chosen!=0&&r.points[i].current_enabled) cost++;
		for(size_t i=r.points.size();i-->p.size();){ int c=cost; /* choices beyond the prefix are 0: no added cost */ for(int alt=r.points[i].n-1;alt>=1;alt--){ int add= r.points[i].current_enabled?1:0; if(bound>=0&&c+add>bound) continue; std::vector<int> q; for(size_t k=0;k<i;k++) q.push_back(r.points[k].chosen); q.push_back(alt); stack.push_back(q); } } }
	return runs; }
// a plain scheduling point (harness bodies call it around operations that are not synchronisation operations themselves)
static void yield_point(){ if(G.active&&tl_id>=0) point(OP_YIELD,0); }
static int self_id(){ return tl_id; }
// does thread id hold the shared side of some rwlock (on the scheduler's model)? Only the running thread may ask.
static bool holds_shared(int id){ for(std::map<void*,RwSt>::iterator i=G.rwlocks.begin();i!=G.rwlocks.end();++i) if(i->second.readers.count(id)) return true; return false; }
// a scheduling point requested by instrumentation of the code under test (never from inside the scheduler)
static void fine_point(){ if(G.active&&tl_id>=0&&!tl_in_sched) point(OP_YIELD,0); }
// block the calling thread until pred() holds (evaluated by the scheduler whenever it looks for enabled threads)
static void block_until(const std::function<bool()> &pred){ if(!(G.active&&tl_id>=0)){ while(!pred()) usleep(100); return; } Thread *t=G.threads[tl_id]; t->probe=pred; t->deadline_ms=-1; point(OP_POLL,0); t->probe=std::function<bool()>(); }
// adoption of threads created by the code under test
static void *adopted_main(void *p){ Thread *t=(Thread*)p; tl_id=t->id; real_mlock(&G.mx); wait_turn(t->id); real_munlock(&G.mx); void *r=0; try{ r=t->start(t->arg); }catch(...){ } real_mlock(&G.mx); t->finished=true; t->pending=OP_NONE; if(G.current==t->id) schedule_next(); real_munlock(&G.mx); tl_id=-1; return r; }
} // namespace sched

// ---- interposers -------------------------------------------------------------------------------------------------------
#define SCHED_TRACKED() (sched::G.active&&sched::tl_id>=0)
extern "C" int pthread_mutex_lock(pthread_mutex_t *m){ if(SCHED_TRACKED()&&m!=&sched::G.mx){ sched::point(sched::OP_MLOCK,m); return 0; } sched::resolve(); return sched::real_mlock(m); }
extern "C" int pthread_mutex_unlock(pthread_mutex_t *m){ if(SCHED_TRACKED()&&m!=&sched::G.mx){ sched::point(sched::OP_MUNLOCK,m); return 0; } sched::resolve(); return sched::real_munlock(m); }
extern "C" int pthread_rwlock_rdlock(pthread_rwlock_t *l){ if(SCHED_TRACKED()){ sched::point(sched::OP_RDLOCK,l); return 0; } sched::resolve(); return sched::real_rd(l); }
extern "C" int pthread_rwlock_wrlock(pthread_rwlock_t *l){ if(SCHED_TRACKED()){ sched::point(sched::OP_WRLOCK,l); return 0; } sched::resolve(); return sched::real_wr(l); }
extern "C" int pthread_rwlock_unlock(pthread_rwlock_t *l){ if(SCHED_TRACKED()){ sched::point(sched::OP_RWUNLOCK,l); return 0; } sched::resolve(); return sched::real_rwunlock(l); }
extern "C" int pthread_cond_wait(pthread_cond_t *c,pthread_mutex_t *m){ if(SCHED_TRACKED()&&c!=&sched::G.cv){ sched::point(sched::OP_CWAIT,c,m); return 0; } sched::resolve(); return sched::real_cwait(c,m); }
extern "C" int pthread_cond_signal(pthread_cond_t *c){ if(SCHED_TRACKED()&&c!=&sched::G.cv){ sched::point(sched::OP_CSIGNAL,c); return 0; } sched::resolve(); return sched::real_csignal(c); }
extern "C" int pthread_cond_broadcast(pthread_cond_t *c){ if(SCHED_TRACKED()&&c!=&sched::G.cv){ sched::point(sched::OP_CBROADCAST,c); return 0; } sched::resolve(); return sched::real_cbroadcast(c); }

// ---- threads created / joined by the code under test -----------------------------------------------------------------
extern "C" int pthread_create(pthread_t *th,const pthread_attr_t *attr,void *(*start)(void*),void *arg){ typedef int (*fn)(pthread_t*,const pthread_attr_t*,void*(*)(void*),void*); static fn real=(fn)dlsym(RTLD_NEXT,"pthread_create");
	if(SCHED_TRACKED()&&sched::G.adopt_threads){ sched::resolve(); sched::real_mlock(&sched::G.mx); sched::Thread *t=new sched::Thread(); t->id=sched::G.threads.size(); t->adopted=true; t->pending=sched::OP_START; t->start=start; t->arg=arg; sched::G.threads.push_back(t); sched::real_munlock(&sched::G.mx); int r=real(th,attr,sched::adopted_main,t); t->pth=*th; return r; }
	return real(th,attr,start,arg); }
extern "C" int pthread_join(pthread_t th,void **ret){ typedef int (*fn)(pthread_t,void**); static fn real=(fn)dlsym(RTLD_NEXT,"pthread_join");
	if(SCHED_TRACKED()){ int target=-1; sched::real_mlock(&sched::G.mx); for(size_t i=0;i<sched::G.threads.size();i++) if(sched::G.threads[i]->adopted&&pthread_equal(sched::G.threads[i]->pth,th)) target=i; sched::real_munlock(&sched::G.mx); if(target>=0){ sched::G.threads[sched::tl_id]->join_target=target; sched::point(sched::OP_JOIN,0); sched::G.threads[sched::tl_id]->join_target=-1; } }
	return real(th,ret); }
// ---- blocking waits on descriptors: enabled iff a zero-timeout probe reports an event or the virtual deadline passed ----
static int sched_real_poll(struct pollfd *f,nfds_t n,int to){ return syscall(SYS_poll,f,n,to); }
static int sched_real_epoll_wait(int ep,struct epoll_event *e,int n,int to){ return syscall(SYS_epoll_wait,ep,e,n,to); }
extern "C" int poll(struct pollfd *fds,nfds_t n,int timeout){ if(SCHED_TRACKED()&&timeout!=0){ sched::Thread *t=sched::G.threads[sched::tl_id]; std::vector<struct pollfd> copy(fds,fds+n); t->probe=[copy]()mutable{ for(size_t i=0;i<copy.size();i++) copy[i].revents=0; return sched_real_poll(copy.empty()?0:&copy[0],copy.size(),0)>0; }; t->deadline_ms= timeout<0?-1:sched::G.vnow_ms+timeout; sched::point(sched::OP_POLL,0); t->probe=std::function<bool()>(); t->deadline_ms=-1; return sched_real_poll(fds,n,0); } return sched_real_poll(fds,n,timeout); }
extern "C" int epoll_wait(int ep,struct epoll_event *evs,int n,int timeout){ if(SCHED_TRACKED()&&timeout!=0){ sched::Thread *t=sched::G.threads[sched::tl_id]; t->probe=[ep](){ struct epoll_event e[8]; return sched_real_epoll_wait(ep,e,8,0)>0; }; t->deadline_ms= timeout<0?-1:sched::G.vnow_ms+timeout; sched::point(sched::OP_POLL,0); t->probe=std::function<bool()>(); t->deadline_ms=-1; return sched_real_epoll_wait(ep,evs,n,0); } return sched_real_epoll_wait(ep,evs,n,timeout); }
extern "C" int select(int nfds,fd_set *r,fd_set *w,fd_set *e,struct timeval *tv){ typedef int (*fn)(int,fd_set*,fd_set*,fd_set*,struct timeval*); static fn real=(fn)dlsym(RTLD_NEXT,"select"); bool zero= tv&&tv->tv_sec==0&&tv->tv_usec==0;
	if(SCHED_TRACKED()&&!zero){ sched::Thread *t=sched::G.threads[sched::tl_id]; fd_set rr,ww,ee; FD_ZERO(&rr); FD_ZERO(&ww); FD_ZERO(&ee); if(r) rr=*r; if(w) ww=*w; if(e) ee=*e; t->probe=[nfds,rr,ww,ee]()mutable{ fd_set a=rr,b=ww,c=ee; struct timeval z; z.tv_sec=0; z.tv_usec=0; return real(nfds,&a,&b,&c,&z)>0; }; t->deadline_ms= tv? sched::G.vnow_ms+tv->tv_sec*1000LL+(tv->tv_usec+999)/1000 : -1; sched::point(sched::OP_POLL,0); t->probe=std::function<bool()>(); t->deadline_ms=-1; struct timeval z; z.tv_sec=0; z.tv_usec=0; return real(nfds,r,w,e,&z); } return real(nfds,r,w,e,tv); }
// ---- virtual clock (only while the harness switched it on) -----------------------------------------------------------------
#ifdef SCHED_VIRTUAL_CLOCK
static const long long SCHED_EPOCH=1700000000LL;
extern "C" int gettimeofday(struct timeval *tv,void *tz){ if(sched::G.virtual_clock){ if(tv){ tv->tv_sec=SCHED_EPOCH+sched::G.vnow_ms/1000; tv->tv_usec=(sched::G.vnow_ms%1000)*1000; } return 0; } return syscall(SYS_gettimeofday,tv,tz); }
extern "C" time_t time(time_t *t){ time_t v; if(sched::G.virtual_clock) v=SCHED_EPOCH+sched::G.vnow_ms/1000; else { struct timeval tv; syscall(SYS_gettimeofday,&tv,0); v=tv.tv_sec; } if(t) *t=v; return v; }
#endif
