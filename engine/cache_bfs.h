// cache_bfs.h - explicit-state search over operation histories of a real base_cache, shared by C07 and C08.
// A state is the history that reaches it (live objects do not copy): to expand a state a fresh cache is built (or the
// long-lived process-shared one is reset by clear(), whose post-condition is itself checked), the history is replayed
// with every result compared against the set-valued model, one more operation is applied, and a destructive audit
// (stats + fetch of every key) is compared as well. Dedup key = canonical form of the model. Each state keeps two
// histories (first and last found) and both are expanded. A no-dedup pass enumerates all sequences to a smaller depth.
#pragma once
#include "vf.h"
#include "cache_model.h"
#include "cache_storage.h"
#include <deque>
#include <unordered_map>

static time_t g_T0 = 1000000; // base of the virtual clock (the 'epoch2039' sub-passes set it beyond 2^31)
static time_t g_now = 1000000;
extern "C" time_t time(time_t *t){ if(t) *t=g_now; return g_now; }

namespace cb {
using cm::Op;
struct Config { std::string backend; unsigned limit; std::vector<Op> ops; std::vector<std::string> keys; std::string label; size_t shm; std::string pad; };
static booster::intrusive_ptr<cppcms::impl::base_cache> g_shared[64]; // long-lived process-shared objects by limit
static booster::intrusive_ptr<cppcms::impl::base_cache> make_cache(const Config &c,bool &reused){ reused=false; if(c.backend=="thread_shared") return cppcms::impl::thread_cache_factory(c.limit);
	if(!g_shared[c.limit]) g_shared[c.limit]=cppcms::impl::process_cache_factory(c.shm?c.shm:512*1024,c.limit); reused=true; return g_shared[c.limit]; }

struct RunResult { bool ok; std::string canon; std::string what; std::string sig; std::vector<std::string> trace; };
static std::string hist_str(const Config &c,const std::vector<int> &h){ std::string s; for(size_t i=0;i<h.size();i++){ if(i) s+=" ; "; s+=c.ops[h[i]].str(); } return s; }
// replay history h on the real cache with the model in lock-step; audit at the end
static RunResult run_history(const Config &c,const std::vector<int> &h,bool want_trace=false){ RunResult r; r.ok=true; g_now=g_T0; bool reused; booster::intrusive_ptr<cppcms::impl::base_cache> cache=make_cache(c,reused);
	cm::Model M(c.limit,g_now); cm::Real<cppcms::impl::base_cache> R(*cache); R.payload_pad=c.pad;
	if(reused){ cache->clear(); unsigned k=1,t=1; cache->stats(k,t); if(k||t){ r.ok=false; r.sig="clear-postcondition"; r.what="clear() leaves keys="+std::to_string(k)+" triggers="+std::to_string(t); return r; } for(size_t i=0;i<c.keys.size();i++){ std::string v; if(cache->fetch(c.keys[i],&v,0,0,0)){ r.ok=false; r.sig="clear-postcondition"; r.what="clear() leaves "+c.keys[i]+" fetchable"; return r; } } }
	auto do_op=[&](const Op &op,const char *phase)->bool{ if(op.k==Op::STORE&&c.limit){ const cm::MState &m0=*M.S.begin(); if(m0.find(op.key)<0&&m0.e.size()>=c.limit){ vf::guard("evictions"); bool exp=false; for(size_t q=0;q<m0.e.size();q++) if(m0.e[q].deadline<g_now) exp=true; if(exp) vf::guard("evictions_with_expired_entry_present"); } }
		std::string obs=R.apply(op,g_now); if(op.k==Op::TICK) g_now+=op.n; std::string exp; bool ok=M.step(op,obs,&exp); if(want_trace) r.trace.push_back(op.str()+" -> "+obs);
		if(!R.err.empty()){ r.ok=false; r.sig="generation"; r.what=R.err; return false; }
		if(!ok){ r.ok=false; std::string kind= op.k==Op::FETCH? (obs=="miss"?"fetch-misses-live-entry": (exp=="miss"?"fetch-returns-dead-entry":"fetch-wrong-data")) : op.k==Op::STATS?"stats-mismatch":"op"; r.sig=kind+(c.limit?":limited":":unlimited"); r.what=std::string(phase)+" "+op.str()+" observed '"+obs+"' but the reference admits only '"+exp+"'"; return false; } return true; };
	for(size_t i=0;i<h.size();i++) if(!do_op(c.ops[h[i]],"op")) return r;
	r.canon=M.canon();
	// destructive audit: counts, then every key
	Op st; st.k=Op::STATS; if(!do_op(st,"audit")) return r; if(c.limit){ unsigned k=0,t=0; cache->stats(k,t); if(k>c.limit){ r.ok=false; r.sig="limit-exceeded"; r.what="cache holds "+std::to_string(k)+" entries with limit "+std::to_string(c.limit); return r; } }
	for(size_t i=0;i<c.keys.size();i++){ Op f; f.k=Op::FETCH; f.key=c.keys[i]; if(!do_op(f,"audit")) return r; }
	if(!do_op(st,"audit")) return r;
	return r; }

struct Stats { uint64_t states=0,transitions=0,traces=0; int depth_done=0; bool fixpoint=false; };
// BFS with dedup; every state is expanded from up to two histories (first and last found)
static void bfs(const Config &c,int maxdepth,Stats &st,const std::function<bool()> &stop){ std::unordered_map<std::string,std::pair<std::vector<int>,std::vector<int> > > seen; std::deque<std::pair<std::string,int> > frontier; // canon, depth
	RunResult r0=run_history(c,std::vector<int>()); st.traces++; if(!r0.ok){ vf::violation(c.label+":"+r0.sig,r0.what+" [history: <empty>, "+c.label+"]","\"config\":"+vf::jstr(c.label)+",\"history\":[]"); return; }
	seen[r0.canon]=std::make_pair(std::vector<int>(),std::vector<int>()); frontier.push_back(std::make_pair(r0.canon,0)); st.states=1; int curdepth=0; bool capped=false;
	while(!frontier.empty()){ std::pair<std::string,int> cur=frontier.front(); if(cur.second>=maxdepth){ capped=true; break; } if(cur.second>curdepth){ curdepth=cur.second; st.depth_done=curdepth; } if(stop()){ capped=true; vf::C().exhaustive=false; break; }
		frontier.pop_front(); std::pair<std::vector<int>,std::vector<int> > hs=seen[cur.first]; int variants= hs.first==hs.second?1:2;
		for(int v=0;v<variants;v++){ std::vector<int> h= v?hs.second:hs.first; for(size_t op=0;op<c.ops.size();op++){ h.push_back(op); vf::announce(c.label+" "+hist_str(c,h)); RunResult r=run_history(c,h); st.transitions++; st.traces++; vf::eval();
				if(!r.ok){ std::string hs2; for(size_t i=0;i<h.size();i++) hs2+=(i?",":"")+std::to_string(h[i]); vf::violation(c.label+":"+r.sig,r.what+" [history: "+hist_str(c,h)+", "+c.label+"]","\"config\":"+vf::jstr(c.label)+",\"history\":["+hs2+"],\"history_text\":"+vf::jstr(hist_str(c,h))); }
				else { auto it=seen.find(r.canon); if(it==seen.end()){ seen[r.canon]=std::make_pair(h,h); frontier.push_back(std::make_pair(r.canon,cur.second+1)); st.states++; if(st.states<=3||st.states%997==0) vf::sample("{\"config\":"+vf::jstr(c.label)+",\"history\":"+vf::jstr(hist_str(c,h))+",\"model\":"+vf::jstr(r.canon)+"}",8); }
					else { if(h.size()<=it->second.second.size()+2) it->second.second=h; if(v==1) vf::guard("states_reached_by_two_histories"); } vf::outcome(c.label+r.canon); }
				h.pop_back(); } } }
	if(frontier.empty()){ st.fixpoint=true; st.depth_done=curdepth+1; } else if(!capped) st.depth_done=curdepth; else st.depth_done=curdepth; }
// all sequences up to depth, no dedup; sharded by the first operation
static void nodedup(const Config &c,int depth,int sh,int n,Stats &st){ std::vector<int> h; std::function<void(int)> rec=[&](int d){ if(d==depth){ vf::announce(c.label+" "+hist_str(c,h)); RunResult r=run_history(c,h); st.traces++; vf::eval(); vf::guard("nodedup_sequences"); if(!r.ok){ std::string hs2; for(size_t i=0;i<h.size();i++) hs2+=(i?",":"")+std::to_string(h[i]); vf::violation(c.label+":"+r.sig,r.what+" [history: "+hist_str(c,h)+", "+c.label+"]","\"config\":"+vf::jstr(c.label)+",\"history\":["+hs2+"],\"history_text\":"+vf::jstr(hist_str(c,h))); } return; }
		for(size_t op=0;op<c.ops.size();op++){ if(d==0&&(int)(op%n)!=sh) continue; if(vf::deadline_reached()){ if(vf::C().exhaustive){ vf::C().exhaustive=false; vf::guard("nodedup_capped_by_budget"); } return; } h.push_back(op); rec(d+1); h.pop_back(); } }; rec(0); }
} // namespace cb
