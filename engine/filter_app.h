// filter_app.h - applications with content filters (multipart_filter / raw_content_filter) for the wire harness.
// Every callback is logged per request id (query parameter id=N) so the harness can check "every byte exactly once",
// callback order and "at most one handler call / one error notification per request".
#pragma once
#include "echo_app.h"
#include <cppcms/http_content_filter.h>
#include <cppcms/http_file.h>

namespace flt {
struct Log { std::string events; std::string raw; std::string seen; /* what a reading filter read from each part: hex(name)=hex(data); */ int main_headers,main_ready,on_error,on_end; Log():main_headers(0),main_ready(0),on_error(0),on_end(0){} };
static std::mutex g_mx; static std::map<std::string,Log> g_log;
inline Log get_log(const std::string &id){ std::lock_guard<std::mutex> g(g_mx); return g_log[id]; }
inline void clear_logs(){ std::lock_guard<std::mutex> g(g_mx); g_log.clear(); }
struct ReqData { std::string id,abort_at,read_mode; int abort_code; bool throw_std; ReqData():abort_code(0),throw_std(false){} };
static void maybe_abort(ReqData *d,const char *where){ if(d&&d->abort_at==where){ if(d->throw_std) throw std::runtime_error("filter failure"); throw cppcms::http::abort_upload(d->abort_code?d->abort_code:502); } }
template<class Base> class filter_base : public cppcms::application, public Base { public: filter_base(cppcms::service &s):cppcms::application(s){}
	ReqData *data(){ return context().template get_specific<ReqData>(); }
	void ev(const std::string &e){ ReqData *d=data(); if(!d) return; std::lock_guard<std::mutex> g(g_mx); g_log[d->id].events+=e+";"; }
	void on_end_of_content(){ ReqData *d=data(); { std::lock_guard<std::mutex> g(g_mx); if(d) g_log[d->id].on_end++; } ev("E"); maybe_abort(d,"on_end_of_content"); }
	void on_error(){ ReqData *d=data(); { std::lock_guard<std::mutex> g(g_mx); if(d) g_log[d->id].on_error++; } ev("X"); }
	void main(std::string){ std::string id=request().get("id"); if(!request().is_ready()){ ReqData *d=new ReqData(); d->id=id; d->abort_at=request().get("abort"); d->abort_code=atoi(request().get("code").c_str()); d->throw_std=request().get("std")=="1"; d->read_mode=request().get("read"); context().reset_specific<ReqData>(d); { std::lock_guard<std::mutex> g(g_mx); g_log[id].main_headers++; g_log[id].events+="H;"; }
			std::string v; if((v=request().get("cl_limit"))!="") request().limits().content_length_limit(atoll(v.c_str())); if((v=request().get("mp_limit"))!="") request().limits().multipart_form_data_limit(atoll(v.c_str())); if((v=request().get("mem_limit"))!="") request().limits().file_in_memory_limit(atoll(v.c_str())); if((v=request().get("setbuf"))!="") request().setbuf(atoi(v.c_str()));
			maybe_abort(d,"on_headers_ready"); request().set_content_filter(*this); return; }
		{ std::lock_guard<std::mutex> g(g_mx); g_log[id].main_ready++; g_log[id].events+="M;"; } echo::g_main_calls++; response().set_plain_text_header(); if(request().get("throw")=="main") throw std::runtime_error("handler failure"); echo::dump_request(request(),response().out()); } };
class mfilter : public filter_base<cppcms::http::multipart_filter> { public: mfilter(cppcms::service &s):filter_base<cppcms::http::multipart_filter>(s){}
	void on_new_file(cppcms::http::file &f){ ev("N:"+vf::hex(f.name())); maybe_abort(data(),"on_new_file"); } void on_upload_progress(cppcms::http::file &f){ ev("P:"+std::to_string((long)f.size())); maybe_abort(data(),"on_upload_progress"); } void on_data_ready(cppcms::http::file &f){ ev("R:"+vf::hex(f.name())+":"+std::to_string((long)f.size())); ReqData *d=data();
		// a filter may inspect the completed part through file::data() (read=full: all of it, read=peek: the first 3 bytes) - and does not rewind
		if(d&&(d->read_mode=="full"||d->read_mode=="peek")){ std::istream &in=f.data(); std::string got; char c; size_t lim= d->read_mode=="peek"?3:(size_t)-1; while(got.size()<lim&&in.get(c)) got+=c; in.clear(); std::lock_guard<std::mutex> g(g_mx); g_log[d->id].seen+=vf::hex(f.name())+"="+vf::hex(got)+";"; }
		maybe_abort(d,"on_data_ready"); } };
class rfilter : public filter_base<cppcms::http::raw_content_filter> { public: rfilter(cppcms::service &s):filter_base<cppcms::http::raw_content_filter>(s){}
	void on_data_chunk(void const *p,size_t n){ ReqData *d=data(); if(d){ std::lock_guard<std::mutex> g(g_mx); g_log[d->id].raw.append((const char*)p,n); g_log[d->id].events+="D"+std::to_string(n)+";"; } maybe_abort(d,"on_data_chunk"); } };
inline void mount_filters(cppcms::service &srv){ /* content filters are honoured for asynchronous applications only (http_context.cpp:on_headers_ready) */ srv.applications_pool().mount(cppcms::create_pool<mfilter>(),cppcms::mount_point("/mfilter"),cppcms::app::content_filter|cppcms::app::asynchronous); srv.applications_pool().mount(cppcms::create_pool<rfilter>(),cppcms::mount_point("/rfilter"),cppcms::app::content_filter|cppcms::app::asynchronous); srv.applications_pool().mount(cppcms::create_pool<mfilter>(),cppcms::mount_point("/amfilter"),cppcms::app::content_filter|cppcms::app::asynchronous); }
} // namespace flt
