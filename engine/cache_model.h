// cache_model.h - set-valued reference model of cppcms::impl::base_cache (used by C07, C08, C09, C10).
// The model is nondeterministic where the property statement leaves the behaviour open (hit or miss exactly at
// now==deadline; which expired entry is evicted first): it carries the SET of admissible abstract states and drops
// those contradicted by an observation; an empty set is a violation.
#pragma once
#include <string>
#include <vector>
#include <set>
#include <map>
#include <algorithm>
#include <sstream>
#include <ctime>
#include <cstdint>

namespace cm {

static const time_t FOREVER = (time_t)9000000000LL; // "no deadline" in the alphabet (beyond every clock the passes use, incl. the 2039 sub-passes)

struct Entry { std::string key; int value; std::set<std::string> trig; /* incl. key */ time_t deadline; int seq;
	bool operator<(const Entry &o) const { if(key!=o.key) return key<o.key; if(value!=o.value) return value<o.value; if(trig!=o.trig) return trig<o.trig; if(deadline!=o.deadline) return deadline<o.deadline; return seq<o.seq; } };
struct MState { std::vector<Entry> e; /* sorted by key */ std::vector<std::string> lru; /* MRU first */
	bool operator<(const MState &o) const { if(lru!=o.lru) return lru<o.lru; if(e.size()!=o.e.size()) return e.size()<o.e.size(); for(size_t i=0;i<e.size();i++){ if(e[i]<o.e[i]) return true; if(o.e[i]<e[i]) return false; } return false; }
	int find(const std::string &k) const { for(size_t i=0;i<e.size();i++) if(e[i].key==k) return i; return -1; }
	void erase_key(const std::string &k){ int i=find(k); if(i>=0) e.erase(e.begin()+i); lru.erase(std::remove(lru.begin(),lru.end(),k),lru.end()); }
	void touch(const std::string &k){ lru.erase(std::remove(lru.begin(),lru.end(),k),lru.end()); lru.insert(lru.begin(),k); }
	unsigned ntrig() const { unsigned n=0; for(size_t i=0;i<e.size();i++) n+=e[i].trig.size(); return n; } };

// an observation of one operation, as a string (so that real and model observations compare textually)
inline std::string obs_hit(int value,const std::set<std::string> &trig,time_t deadline){ std::ostringstream o; o<<"hit v"<<value<<" {"; for(std::set<std::string>::const_iterator i=trig.begin();i!=trig.end();++i){ for(size_t q=0;q<i->size();q++){ unsigned char c=(*i)[q]; if(c>=0x20&&c<0x7f) o<<(char)c; else { char b[8]; snprintf(b,sizeof b,"\\x%02x",c); o<<b; } } o<<","; } o<<"} d"<<(deadline>=FOREVER?-1:(long)deadline); return o.str(); }

struct Op { enum K {STORE,FETCH,RISE,REMOVE,CLEAR,TICK,STATS} k; std::string key; std::set<std::string> trig; int dl; /* deadline offset from now; -1 = forever; <= -2 = already past: now+dl+1 (so -2 is now-1) */ int n;
	time_t deadline_at(time_t now) const { return dl==-1? FOREVER : dl<-1? now+dl+1 : now+dl; }
	static std::string pv(const std::string &s){ std::string r; char b[8]; for(size_t i=0;i<s.size();i++){ unsigned char c=s[i]; if(c>=0x20&&c<0x7f&&c!='\\') r+=(char)c; else { snprintf(b,sizeof b,"\\x%02x",c); r+=b; } } return r; } // printable form of a (possibly binary) key
	std::string str() const { std::ostringstream o; switch(k){ case STORE: o<<"store("<<pv(key)<<",{"; for(std::set<std::string>::const_iterator i=trig.begin();i!=trig.end();++i) o<<pv(*i)<<","; o<<"},"; if(dl==-1) o<<"inf"; else if(dl<-1) o<<"now"<<(dl+1); else o<<"now+"<<dl; o<<")"; break; case FETCH: o<<"fetch("<<pv(key)<<")"; break; case RISE: o<<"rise("<<pv(key)<<")"; break; case REMOVE: o<<"remove("<<pv(key)<<")"; break; case CLEAR: o<<"clear"; break; case TICK: o<<"tick("<<n<<")"; break; case STATS: o<<"stats"; break; } return o.str(); } };

struct Model { std::set<MState> S; time_t now; unsigned limit; int stores; bool boundary_open; // boundary_open: at now==deadline both verdicts admissible
	Model(unsigned lim,time_t t0):now(t0),limit(lim),stores(0),boundary_open(true){ S.insert(MState()); }
	// apply op given the real observation; returns false if no admissible state remains
	bool step(const Op &op,const std::string &real_obs,std::string *expected=0){ std::set<MState> N; std::set<std::string> exp;
		if(op.k==Op::STORE) stores++;
		for(std::set<MState>::const_iterator it=S.begin();it!=S.end();++it){ std::vector<std::pair<MState,std::string> > succ; successors(*it,op,succ); for(size_t i=0;i<succ.size();i++){ exp.insert(succ[i].second); if(succ[i].second==real_obs) N.insert(succ[i].first); } }
		if(op.k==Op::TICK) now+=op.n;
		if(expected){ expected->clear(); for(std::set<std::string>::iterator i=exp.begin();i!=exp.end();++i){ if(!expected->empty()) *expected+=" | "; *expected+=*i; } }
		if(N.empty()) return false; S.swap(N); return true; }
	void evict(const MState &s,std::vector<MState> &out) const { // make room for one insertion
		if(limit==0||s.e.size()<limit){ out.push_back(s); return; }
		std::vector<std::string> cand; bool strict=false; for(size_t i=0;i<s.e.size();i++) if(s.e[i].deadline<now){ cand.push_back(s.e[i].key); strict=true; }
		if(boundary_open) for(size_t i=0;i<s.e.size();i++) if(s.e[i].deadline==now) cand.push_back(s.e[i].key);
		if(!strict&&!s.lru.empty()){ if(std::find(cand.begin(),cand.end(),s.lru.back())==cand.end()) cand.push_back(s.lru.back()); }
		for(size_t i=0;i<cand.size();i++){ MState t=s; t.erase_key(cand[i]); evict(t,out); } }
	void successors(const MState &s,const Op &op,std::vector<std::pair<MState,std::string> > &out) const { switch(op.k){
		case Op::FETCH:{ int i=s.find(op.key); if(i<0){ out.push_back(std::make_pair(s,"miss")); return; } const Entry &e=s.e[i]; if(e.deadline<now){ out.push_back(std::make_pair(s,"miss")); return; }
			if(e.deadline==now&&boundary_open) out.push_back(std::make_pair(s,"miss")); MState t=s; t.touch(op.key); out.push_back(std::make_pair(t,obs_hit(e.value,e.trig,e.deadline))); return; }
		case Op::STORE:{ MState t=s; t.erase_key(op.key); std::vector<MState> ev; evict(t,ev); for(size_t i=0;i<ev.size();i++){ MState u=ev[i]; Entry e; e.key=op.key; e.value=stores; e.trig=op.trig; e.trig.insert(op.key); e.deadline= op.deadline_at(now); e.seq=stores; u.e.push_back(e); std::sort(u.e.begin(),u.e.end()); u.touch(op.key); out.push_back(std::make_pair(u,"ok")); } return; }
		case Op::RISE:{ MState t=s; std::vector<std::string> kill; for(size_t i=0;i<t.e.size();i++) if(t.e[i].trig.count(op.key)) kill.push_back(t.e[i].key); for(size_t i=0;i<kill.size();i++) t.erase_key(kill[i]); out.push_back(std::make_pair(t,"ok")); return; }
		case Op::REMOVE:{ MState t=s; t.erase_key(op.key); out.push_back(std::make_pair(t,"ok")); return; }
		case Op::CLEAR: out.push_back(std::make_pair(MState(),"ok")); return;
		case Op::TICK: out.push_back(std::make_pair(s,"ok")); return;
		case Op::STATS:{ std::ostringstream o; o<<"keys="<<s.e.size()<<" triggers="<<s.ntrig(); out.push_back(std::make_pair(s,o.str())); return; } } }
	// canonical key of the whole model (values/seq renamed by rank, deadlines relative to now and capped)
	std::string canon(int cap=4) const { std::ostringstream o; for(std::set<MState>::const_iterator it=S.begin();it!=S.end();++it){ std::vector<int> vals; for(size_t i=0;i<it->e.size();i++) vals.push_back(it->e[i].value); std::sort(vals.begin(),vals.end()); o<<"[";
			for(size_t i=0;i<it->e.size();i++){ const Entry &e=it->e[i]; int rank=std::lower_bound(vals.begin(),vals.end(),e.value)-vals.begin(); long rel= e.deadline>=FOREVER? 99 : (long)(e.deadline-now); if(rel<-1) rel=-1; if(rel>cap&&rel!=99) rel=cap; o<<e.key<<":"<<rank<<":"; for(std::set<std::string>::const_iterator t=e.trig.begin();t!=e.trig.end();++t) o<<*t<<","; o<<":"<<rel<<";"; }
			o<<"|"; for(size_t i=0;i<it->lru.size();i++) o<<it->lru[i]<<">"; o<<"]"; } return o.str(); }
};

// ---- driving the real cache and producing the same observation strings -----------------------------------------
template<class Cache> struct Real { Cache &c; std::map<std::string,int> value_of; /* payload -> store counter */ std::map<uint64_t,int> gen2store; std::map<int,uint64_t> store2gen; int stores; std::string payload_pad; std::string err;
	Real(Cache &cc):c(cc),stores(0){}
	std::string payload(int n){ return "v"+std::to_string(n)+payload_pad; }
	std::string apply(const Op &op,time_t now){ switch(op.k){
		case Op::STORE:{ stores++; time_t d= op.deadline_at(now); c.store(op.key,payload(stores),op.trig,d); return "ok"; }
		case Op::FETCH:{ std::string v; std::set<std::string> tr; time_t d=0; uint64_t gen=0; if(!c.fetch(op.key,&v,&tr,&d,&gen)) return "miss"; int id=-1; if(v.size()>=2&&v[0]=='v'){ id=atoi(v.c_str()+1); if(v!=payload(id)) id=-2; }
			if(id>0){ if(gen2store.count(gen)&&gen2store[gen]!=id) err="generation "+std::to_string(gen)+" shared by two stores"; if(store2gen.count(id)&&store2gen[id]!=gen) err="generation of one store changed"; gen2store[gen]=id; store2gen[id]=gen; }
			return obs_hit(id,tr,d); }
		case Op::RISE: c.rise(op.key); return "ok"; case Op::REMOVE: c.remove(op.key); return "ok"; case Op::CLEAR: c.clear(); return "ok"; case Op::TICK: return "ok";
		case Op::STATS:{ unsigned k=0,t=0; c.stats(k,t); std::ostringstream o; o<<"keys="<<k<<" triggers="<<t; return o.str(); } } return "?"; } };
} // namespace cm
