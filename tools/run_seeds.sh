#!/bin/bash
# tools/run_seeds.sh [ID ...] : for every kept seeded change (seeded/<ID>/patch.diff) apply it to /repo, run the quick check of
# that property, record exit code and the VIOLATION lines in seeded/<ID>/check_output.txt, and restore /repo straight afterwards.
# Expected: exit 1 with at least one VIOLATION line for every seed. Nothing is committed to /repo.
VERIF="$(cd "$(dirname "$0")/.." && pwd)"; cd "$VERIF"
IDS="${*:-$(ls seeded | grep '^C[0-9][0-9][bcdefgh]\?$')}"
exec 9>/tmp/verif_repo.lock
RC=0
for id in $IDS; do
  flock 9   # one seed at a time holds /repo; other users get a turn between seeds
  git -C /repo status --porcelain --untracked-files=no | grep -q . && { echo "/repo has uncommitted changes"; exit 2; }
  git -C /repo apply "$VERIF/seeded/$id/patch.diff" || { echo "$id apply FAILED"; RC=1; continue; }
  P=${id:0:3}   # seeded/C07b is a second seed for property C07
  # which checks to run: the property's own, unless seeded/<id>/checks names others (a change may be caught by a neighbouring property's check)
  CH="$P"; [ -f "seeded/$id/checks" ] && CH="$(cat seeded/$id/checks)"
  : > "seeded/$id/check_output.txt"; OK=0
  for c in $CH; do
    # the evidence file describes runs on the unchanged tree: keep it across a run on a patched tree
    [ -f "evidence/$c.json" ] && cp "evidence/$c.json" "/tmp/evidence.$c.keep.$$"
    OUT="$(./check $c --tier quick 2>&1)"; E=$?
    [ -f "/tmp/evidence.$c.keep.$$" ] && mv "/tmp/evidence.$c.keep.$$" "evidence/$c.json"
    { echo "# ./check $c --tier quick   on /repo with seeded/$id/patch.diff applied"; echo "exit=$E"; echo "$OUT" | grep -A2 '^VIOLATION' | cut -c1-600 | head -30; echo "$OUT" | grep "^$c quick" ; } >> "seeded/$id/check_output.txt"
    N=$(echo "$OUT" | grep -c '^VIOLATION'); echo "$id check=$c exit=$E violations=$N"; [ "$E" = "1" ] && [ "$N" -ge 1 ] && OK=1
  done
  git -C /repo checkout -- .
  flock -u 9
  [ "$OK" = "1" ] || { echo "$id NOT DETECTED"; RC=1; }
done
exit $RC
