#!/bin/bash
# tools/run_seeds.sh [ID ...] : for every kept seeded change (seeded/<ID>/patch.diff) apply it to /repo, run the quick check of
# that property, record exit code and the VIOLATION lines in seeded/<ID>/check_output.txt, and restore /repo straight afterwards.
# Expected: exit 1 with at least one VIOLATION line for every seed. Nothing is committed to /repo.
VERIF="$(cd "$(dirname "$0")/.." && pwd)"; cd "$VERIF"
IDS="${*:-$(ls seeded | grep '^C[0-9][0-9]b\?$')}"
exec 9>/tmp/verif_repo.lock; flock 9
RC=0
for id in $IDS; do
  git -C /repo status --porcelain --untracked-files=no | grep -q . && { echo "/repo has uncommitted changes"; exit 2; }
  git -C /repo apply "$VERIF/seeded/$id/patch.diff" || { echo "$id apply FAILED"; RC=1; continue; }
  P=${id:0:3}   # seeded/C07b is a second seed for property C07
  OUT="$(./check $P --tier quick 2>&1)"; E=$?
  git -C /repo checkout -- .
  { echo "# ./check $P --tier quick   on /repo with seeded/$id/patch.diff applied"; echo "exit=$E"; echo "$OUT" | grep -A2 '^VIOLATION' | cut -c1-600 | head -30; echo "$OUT" | grep "^$P quick" ; } > "seeded/$id/check_output.txt"
  N=$(echo "$OUT" | grep -c '^VIOLATION'); echo "$id exit=$E violations=$N"; [ "$E" = "1" ] && [ "$N" -ge 1 ] || RC=1
done
exit $RC
