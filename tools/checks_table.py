ENGINES=[
 dict(name="envx",path="engine/vf.h",serves_properties=["C19","C15"],kind_free_text="bounded-exhaustive enumeration / deviation-bounded choice explorer over the real code, fork-sharded with crash isolation"),
]
NOT_YET={}
chk("C19","envx","exploration",
 "Every value of a 27-type universe is round-tripped through the real archive; every truncation, every 4-byte length-field rewrite (menu incl. rem+1..rem+3 and 2^32-k), every 00/01/ff byte substitution of every valid archive and every token sequence up to a depth is loaded by the real code under ASan+UBSan and compared with a strict reference chunk reader. Complete within those bounds; inputs outside the alphabets are not covered.",
 "Trusted: the strict reference reader in harness/C19 as the definition of the archive format; GCC ASan/UBSan; throwing any std::exception counts as a safe rejection.",
 "bounded-exhaustive input enumeration of the real loader vs. a strict reference chunk reader")
chk("C15","envx","exploration",
 "All byte strings of length 0..2 on every output path of escape/urlencode/base64url (string, streambuf, ostream, template filters through their 128-byte filter buffer, text/textarea widgets), base64 blocks of length 3 (16^3 grid quick, all 2^24 thorough), lengths 0..1024 for the size formulas with canary and exact-size heap buffers, every sink capacity 0..len(output) as an environment answer, and the decoders on all short strings over adversarial alphabets; each compared with reference codecs written in the harness. Complete within those bounds.",
 "Trusted: reference un-escape/percent/base64url codecs in harness/C15; ASan for out-of-buffer writes. Failure *reporting* on a short sink is not demanded (the statement does not), only that what was delivered is a prefix of the correct output.",
 "bounded-exhaustive input and sink-capacity enumeration vs reference codecs")
