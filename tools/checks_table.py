ENGINES=[
 dict(name="envx",path="engine/vf.h",serves_properties=["C19","C15","C14","C16","C11"],kind_free_text="bounded-exhaustive enumeration / deviation-bounded choice explorer over the real code, fork-sharded with crash isolation"),
]
NOT_YET={}
chk("C19","envx","exploration",
 "Every value of a 27-type universe is round-tripped through the real archive; every truncation, every 4-byte length-field rewrite (menu incl. rem+1..rem+3 and 2^32-k), every 00/01/ff byte substitution of every valid archive and every token sequence up to a depth is loaded by the real code under ASan+UBSan and compared with a strict reference chunk reader. Complete within those bounds; inputs outside the alphabets are not covered.",
 "Trusted: the strict reference reader in harness/C19 as the definition of the archive format; GCC ASan/UBSan; throwing any std::exception counts as a safe rejection.",
 "bounded-exhaustive input enumeration of the real loader vs. a strict reference chunk reader")
chk("C15","envx","exploration",
 "All byte strings of length 0..2 on every output path of escape/urlencode/base64url (string, streambuf, ostream, template filters through their 128-byte filter buffer, text/textarea widgets), base64 blocks of length 3 (16^3 grid quick, all 2^24 thorough), lengths 0..1024 for the size formulas with canary and exact-size heap buffers, every sink capacity 0..len(output) as an environment answer, and the decoders on all short strings over adversarial alphabets; each compared with reference codecs written in the harness. Complete within those bounds.",
 "Trusted: reference un-escape/percent/base64url codecs in harness/C15; ASan for out-of-buffer writes. Failure *reporting* on a short sink is not demanded (the statement does not), only that what was delivered is a prefix of the correct output.",
 "bounded-exhaustive input and sink-capacity enumeration vs reference codecs")
chk("C14","envx","exploration",
 "All 2^32 four-byte windows and all strings of length 1..3 go through both UTF-8 decoders (cppcms::utf8::next plain and HTML-safe, booster utf_traits<char>::decode) and are compared on verdict, code point and length with a decoder written from the RFC 3629 grammar: as the decoders read at most 4 bytes this part is complete, not bounded. All bytes and all byte pairs for the 36 registered single-byte code-page names; valid / valid_utf8 / validate_or_filter on every concatenation of up to 4 pieces of a 38-piece catalogue of well- and ill-formed units.",
 "Trusted: the grammar-derived reference decoder in harness/C14. C0/C1 read as Unicode Cc incl. DEL. Exact per-code-page tables of unassigned bytes are not demanded (the statement does not). The form-widget clause is not driven by this check.",
 "exhaustive input enumeration (2^32 windows) of the real decoders vs a grammar-derived reference")
chk("C16","envx","exploration",
 "Digest and HMAC objects are explored as state machines: every operation sequence up to depth 4 (thorough 5) over appends around the block boundaries, readout and clone, every message length 0..2B+9 with every 2-chunking and 3-chunkings to B+9, HMAC key-length classes with object reuse over 18 messages, AES-CBC 1..4 blocks chained and single-call, and hex key parsing over all short strings; every state compared with libcrypto one-shot functions anchored by embedded known-answer vectors.",
 "Trusted base: OpenSSL EVP one-shot digest/HMAC/CBC plus embedded FIPS 180-4 / RFC 2202 / RFC 4231 vectors. SHA-2 and AES in cppcms are themselves thin wrappers over the same library, so for them the check covers the wrapper logic (init/update/final/re-init/clone/IV chaining).",
 "bounded-exhaustive operation-sequence and chunking enumeration vs one-shot reference functions")
chk("C11","envx","exploration",
 "Every string up to length 6 (thorough 7) over an 18-character JSON alphabet and every sequence of up to 6 (7) tokens of a 16-token set is parsed by the real parser and compared with a strict RFC 8259 recogniser + tree builder: strict-valid documents must be accepted with an equal tree, accepted documents must satisfy the UTF-8 / depth post-conditions, rejected ones must leave the target untouched. Plus every byte and byte pair inside a string, \\u pairs, a number grid, nesting around the 512 bound, all value trees to depth 2 (+ depth-3 grid) round-tripped in compact/readable form under a classic and a comma-decimal stream locale, and typed extraction for all integer widths. Complete within those bounds.",
 "Trusted: the strict reference recogniser in harness/C11 and strtod. Acceptance of a superset of RFC 8259 is not a violation. One known finding (DBL_MAX neighbourhood does not round-trip) is listed in known_findings.jsonl.",
 "bounded-exhaustive input / value-tree enumeration vs a strict reference parser")
