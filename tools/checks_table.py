ENGINES=[
 dict(name="envx",path="engine/vf.h",serves_properties=["C19"],kind_free_text="bounded-exhaustive enumeration / deviation-bounded choice explorer over the real code, fork-sharded with crash isolation"),
]
NOT_YET={}
chk("C19","envx","exploration",
 "Every value of a 27-type universe is round-tripped through the real archive; every truncation, every 4-byte length-field rewrite (menu incl. rem+1..rem+3 and 2^32-k), every 00/01/ff byte substitution of every valid archive and every token sequence up to a depth is loaded by the real code under ASan+UBSan and compared with a strict reference chunk reader. Complete within those bounds; inputs outside the alphabets are not covered.",
 "Trusted: the strict reference reader in harness/C19 as the definition of the archive format; GCC ASan/UBSan; throwing any std::exception counts as a safe rejection.",
 "bounded-exhaustive input enumeration of the real loader vs. a strict reference chunk reader")
