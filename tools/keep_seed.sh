#!/bin/bash
# tools/keep_seed.sh <ID> : copy a confirmed seeded change from /tmp/seeded_out/<ID> into /verif/seeded/<ID>/ (patch, demo, report; no binaries, no logs)
ID="$1"; SRC=/tmp/seeded_out/$ID; DST="$(cd "$(dirname "$0")/.." && pwd)/seeded/$ID"; mkdir -p "$DST"
cp "$SRC/patch.diff" "$DST/"; for f in demo.cpp demo.py demo.sh REPORT.md run_private_proto.sh; do [ -f "$SRC/$f" ] && cp "$SRC/$f" "$DST/"; done
for f in "$SRC"/demo*out* "$SRC"/demo_*.txt; do [ -f "$f" ] && [ $(stat -c %s "$f") -lt 20000 ] && cp "$f" "$DST/"; done
ls "$DST"
