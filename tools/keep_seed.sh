#!/bin/bash
# tools/keep_seed.sh <ID> [<source dir> [<name>]] : copy a confirmed seeded change (default source /tmp/seeded_out/<ID>) into /verif/seeded/<name>/ (patch, demo, report; no binaries, no logs)
ID="$1"; SRC="${2:-/tmp/seeded_out/$ID}"; NAME="${3:-$ID}"; DST="$(cd "$(dirname "$0")/.." && pwd)/seeded/$NAME"; mkdir -p "$DST"
cp "$SRC/patch.diff" "$DST/"; for f in demo.cpp demo.py demo.sh REPORT.md run_private_proto.sh; do [ -f "$SRC/$f" ] && cp "$SRC/$f" "$DST/"; done
for f in "$SRC"/demo*out* "$SRC"/demo_*.txt; do [ -f "$f" ] && [ $(stat -c %s "$f") -lt 20000 ] && cp "$f" "$DST/"; done
ls "$DST"
