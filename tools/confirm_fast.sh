#!/bin/bash
# tools/confirm_fast.sh <worktree> <dir-with-patch.diff-and-demo> <PROPERTY-ID> [check-id ...]
# Same confirmation as confirm_seed.sh + confirm_demo.sh, but in the scratch worktree the sub-agent already built
# (outside /repo and /verif): the worktree's diff must be exactly patch.diff; the whole tree is rebuilt with ninja; the 61
# stable baseline tests must pass; the demo must fail with the change and pass after the change is reverted (library
# rebuilt); then the patch is applied to /repo, the named quick checks are run, and /repo is restored. The worktree is
# removed at the end.
set -u
WT="$1"; SRC="$2"; PID="$3"; shift 3; CHECKS="${*:-$PID}"
VERIF="$(cd "$(dirname "$0")/.." && pwd)"
trap 'git -C /repo worktree remove --force "$WT" >/dev/null 2>&1; rm -rf "$WT"' EXIT
[ -f "$SRC/patch.diff" ] || { echo "RESULT no patch.diff in $SRC"; exit 2; }
# the worktree must hold exactly the patch: reset it and apply the patch file (so what is tested is what is kept)
git -C "$WT" checkout -q -- . && git -C "$WT" apply "$SRC/patch.diff" || { echo "RESULT apply=FAILED"; exit 1; }
git -C "$WT" diff --stat | tail -1
( cd "$WT" && { [ -f _build/build.ninja ] || cmake -G Ninja -B _build -DCMAKE_BUILD_TYPE=RelWithDebInfo -DCMAKE_CXX_FLAGS=-Wno-error . >/dev/null 2>&1; } && ninja -C _build >/tmp/cf_build.$$ 2>&1 ) || { echo "RESULT build=FAILED"; tail -5 /tmp/cf_build.$$; rm -f /tmp/cf_build.$$; exit 1; }
rm -f /tmp/cf_build.$$
python3 - "$WT" "/tmp/cf_baseline.$$.txt" <<'EOF'
import json,subprocess,sys,re
wt=sys.argv[1]
b=json.load(open('/root/.vp/BASELINE.json'))
stable=sorted(set(n.split('::')[0] for n in b['stable_pass']))
out=subprocess.run(['ctest','--test-dir',wt+'/_build','-j4','--timeout','900'],capture_output=True,text=True).stdout
failed=set(re.findall(r'- (\S+) \(',out))&set(stable)
still=[]
for t in sorted(failed):   # port collisions etc.: retry serially
    # in a private network namespace: the fixed ports (8080 ...) cannot collide with other runs on this machine
    r=subprocess.run(['unshare','-n','sh','-c','ip link set lo up; ctest --test-dir %s/_build -R "^%s$" --timeout 900'%(wt,t)],capture_output=True,text=True)
    if '100% tests passed' not in r.stdout: still.append(t)
print("RESULT baseline_stable=%d failed_after_retry=%s"%(len(stable),still))
open(sys.argv[2],'w').write(','.join(still))
EOF
FAILED="$(cat /tmp/cf_baseline.$$.txt)"; rm -f /tmp/cf_baseline.$$.txt
rundemo(){ # prints exit code
  if [ -f "$SRC/demo.cpp" ]; then
    g++ -std=c++11 -O1 -g -fno-access-control -I"$WT" -I"$WT/private" -I"$WT/tests" -I"$WT/booster" -I"$WT/_build" -I"$WT/_build/booster" \
        "$SRC/demo.cpp" -o "$WT/demo.bin" -L"$WT/_build" -lcppcms -L"$WT/_build/booster" -lbooster -lpthread -ldl -lz -lcrypto >"$WT/demo.build.log" 2>&1 || { echo "build-failed"; return; }
    ( cd "$WT" && LD_LIBRARY_PATH="$WT/_build:$WT/_build/booster" timeout 900 ./demo.bin >"$WT/demo.out" 2>&1; echo $? )
  elif [ -f "$SRC/demo.py" ]; then ( cd "$WT" && LD_LIBRARY_PATH="$WT/_build:$WT/_build/booster" timeout 900 python3 "$SRC/demo.py" "$WT" >"$WT/demo.out" 2>&1; echo $? )
  elif [ -f "$SRC/demo.sh" ]; then ( cd "$WT" && LD_LIBRARY_PATH="$WT/_build:$WT/_build/booster" timeout 900 bash "$SRC/demo.sh" "$WT" >"$WT/demo.out" 2>&1; echo $? )
  else echo "no-demo"; fi; }
P=$(rundemo); echo "RESULT demo_with_patch exit=$P :: $(tail -2 "$WT/demo.out" 2>/dev/null | tr '\n' ' ' | cut -c1-240)"
git -C "$WT" apply -R "$SRC/patch.diff" && ( cd "$WT" && ninja -C _build >/dev/null 2>&1 ) || { echo "RESULT demo_revert=FAILED"; exit 1; }
U=$(rundemo); echo "RESULT demo_unchanged exit=$U :: $(tail -2 "$WT/demo.out" 2>/dev/null | tr '\n' ' ' | cut -c1-240)"
if [ "$P" != "0" ] && [ "$P" != "build-failed" ] && [ "$P" != "no-demo" ] && [ "$U" = "0" ]; then echo "RESULT demo=CONFIRMED"; else echo "RESULT demo=NOT-CONFIRMED"; fi
# now the checks against /repo itself (serialised with any other user of /repo through /tmp/verif_repo.lock)
exec 9>/tmp/verif_repo.lock; flock 9
git -C /repo status --porcelain --untracked-files=no | grep -q . && { echo "/repo has uncommitted changes"; exit 2; }
git -C /repo apply "$SRC/patch.diff" || { echo "RESULT repo_apply=FAILED"; exit 1; }
for c in $CHECKS; do
  [ -f "$VERIF/evidence/$c.json" ] && cp "$VERIF/evidence/$c.json" "/tmp/evidence.$c.keep.$$"
  OUT="$(cd "$VERIF" && ./check $c --tier quick 2>&1)"; RC=$?
  [ -f "/tmp/evidence.$c.keep.$$" ] && mv "/tmp/evidence.$c.keep.$$" "$VERIF/evidence/$c.json"
  echo "RESULT check=$c exit=$RC violations=$(echo "$OUT" | grep -c '^VIOLATION')"
  echo "$OUT" | grep -A2 '^VIOLATION' | grep 'what:' | head -2 | cut -c1-400
done
git -C /repo checkout -- . ; flock -u 9; git -C /repo status --porcelain --untracked-files=no | grep -q . && echo "WARNING: /repo not clean"
[ -z "$FAILED" ] && echo "RESULT baseline=PASS" || echo "RESULT baseline=FAIL ($FAILED)"
