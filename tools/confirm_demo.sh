#!/bin/bash
# tools/confirm_demo.sh <dir-with-patch.diff-and-demo> <ID>
# Confirms the demonstration that comes with a seeded change, in a scratch worktree of /repo (never in /repo itself):
# with the patch applied the demo must FAIL (non-zero exit), with the patch reverted it must PASS (exit 0).
# The worktree is created at /tmp/wt/<ID> because the demos carry that path in their build lines; it is removed at the end.
set -u
SRC="$1"; ID="$2"
WT=/tmp/wt/$ID
[ -e "$WT" ] && { echo "RESULT demo=SKIPPED ($WT exists)"; exit 2; }
mkdir -p /tmp/wt
git -C /repo worktree add -q --detach "$WT" HEAD || exit 2
trap 'git -C /repo worktree remove --force "$WT" >/dev/null 2>&1; rm -rf "$WT"' EXIT
git -C "$WT" apply "$SRC/patch.diff" || { echo "RESULT demo_apply=FAILED"; exit 1; }
build(){ ( cd "$WT" && cmake -G Ninja -B _build -DCMAKE_BUILD_TYPE=RelWithDebInfo -DCMAKE_CXX_FLAGS=-Wno-error . >/dev/null 2>&1 && ninja -C _build cppcms booster >/dev/null 2>&1 ); }
rundemo(){ # prints exit code
  if [ -f "$SRC/demo.cpp" ]; then
    g++ -std=c++11 -O1 -g -fno-access-control -I"$WT" -I"$WT/private" -I"$WT/tests" -I"$WT/booster" -I"$WT/_build" -I"$WT/_build/booster" \
        "$SRC/demo.cpp" -o "$WT/demo.bin" -L"$WT/_build" -lcppcms -L"$WT/_build/booster" -lbooster -lpthread -ldl -lz -lcrypto >"$WT/demo.build.log" 2>&1 || { echo "build-failed"; return; }
    ( cd "$WT" && LD_LIBRARY_PATH="$WT/_build:$WT/_build/booster" timeout 900 ./demo.bin >"$WT/demo.out" 2>&1; echo $? )
  elif [ -f "$SRC/demo.py" ]; then ( cd "$WT" && ninja -C _build >/dev/null 2>&1; LD_LIBRARY_PATH="$WT/_build:$WT/_build/booster" timeout 900 python3 "$SRC/demo.py" "$WT" >"$WT/demo.out" 2>&1; echo $? )
  elif [ -f "$SRC/demo.sh" ]; then ( cd "$WT" && ninja -C _build >/dev/null 2>&1; LD_LIBRARY_PATH="$WT/_build:$WT/_build/booster" timeout 900 bash "$SRC/demo.sh" "$WT" >"$WT/demo.out" 2>&1; echo $? )
  else echo "no-demo"; fi; }
build || { echo "RESULT demo_build=FAILED"; exit 1; }
P=$(rundemo); echo "RESULT demo_with_patch exit=$P :: $(tail -2 "$WT/demo.out" 2>/dev/null | tr '\n' ' ' | cut -c1-240)"
git -C "$WT" apply -R "$SRC/patch.diff" && build || { echo "RESULT demo_revert=FAILED"; exit 1; }
U=$(rundemo); echo "RESULT demo_unchanged exit=$U :: $(tail -2 "$WT/demo.out" 2>/dev/null | tr '\n' ' ' | cut -c1-240)"
if [ "$P" != "0" ] && [ "$P" != "build-failed" ] && [ "$P" != "no-demo" ] && [ "$U" = "0" ]; then echo "RESULT demo=CONFIRMED"; else echo "RESULT demo=NOT-CONFIRMED"; exit 1; fi
