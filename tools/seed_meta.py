#!/usr/bin/env python3
"""Writes seeded/<ID>/meta.json and seeded/README.md from the table below plus the recorded check outputs
(seeded/<ID>/check_output.txt, produced by tools/run_seeds.sh). The table is maintained by hand: it records what each
independently seeded change is, what it needs to manifest, how it was confirmed and what happened to the check."""
import json, os, re, sys
V = os.path.dirname(os.path.dirname(os.path.abspath(__file__)))
CONFIRM = ["tools/confirm_seed.sh /tmp/seeded_out/<ID> <ID>   (scratch worktree: git apply, cmake+ninja RelWithDebInfo, ctest over the 61 stable baseline tests with serial retry of port collisions; then git -C /repo apply, ./check <ID> --tier quick, git -C /repo checkout -- .)",
           "tools/confirm_demo.sh /tmp/seeded_out/<ID> <ID>   (scratch worktree at /tmp/wt/<ID>: demo built against the patched library must exit != 0, after git apply -R and rebuild it must exit 0)",
           "tools/run_seeds.sh <ID>   (final run of the current check against the seed; output kept in check_output.txt)"]
S = {
 "C01": dict(change="src/fastcgi_api.cpp fastcgi::non_blocking_read_record(): the 'whole record buffered?' test no longer counts padding_length while the read still consumes the padding",
             needs="FastCGI; a PARAMS / empty STDIN record with padding > 0; a read boundary inside that record's padding; the preceding record in the same read (fast path)",
             first="missed (exit 0): reads were cut at every position only for unpadded streams <= 192 bytes; padded streams only on a boundary menu",
             strengthened="C01 now sends padded streams (pad 1, 7, 3+PARAMS cut) with one server-side read boundary at EVERY byte position (engine/wire.h forced segmentation); thorough: pairs of boundaries"),
 "C02": dict(change="private/string_map.h string_map::add(): the CGI-variable table grows at total >= size instead of total*2 >= size; get() for an absent key then spins forever on a 100% full table",
             needs="a well-formed request with exactly 64 (128, ...) CGI variables: 64 SCGI/FastCGI pairs or 54 HTTP header lines; then any lookup of an absent variable in the event-loop thread",
             first="missed (exit 0): the size menu covered header-block bytes and lengths, never the NUMBER of variables",
             strengthened="C02 now sweeps well-formed requests with N = 0..140, 245..257, 500..513, 1013..1025 extra headers per protocol and application kind; a stuck loop is reported as service-hung (two probes) instead of a shard time-out; Server::stop tolerates a stuck loop"),
 "C03": dict(change="src/fastcgi_api.cpp fastcgi::format_output(): reminder > 65535 became >=, so a flush of exactly 65535 bytes emits the never-prepared (all-zero) full-record header",
             needs="FastCGI; one flush of exactly 65535 bytes with no earlier larger flush on the same connection object",
             first="caught (exit 1): 'record version != 1' for program w7.f.w65535 (full buffering)", strengthened=""),
 "C04": dict(change="src/xss.cpp parse_html_entity(): long code_point became int, so numeric references >= 2^32 are judged by their low 32 bits",
             needs="numeric entities enabled; a reference with >= 9 hex / 10 decimal digits whose value mod 2^32 is an allowed code point (&#x10000003C;)",
             first="missed (exit 0): the lenient scanner accepted any syntactically valid numeric reference; no reference beyond 0x10FFFF was generated",
             strengthened="scanner and validate() now judged by the arbitrary-precision VALUE of a reference; entity pass: ~160 values at every boundary of the allowed set and beyond 2^32/2^64/2^96 x radix x case x leading zeros x 5 templates"),
 "C05": dict(change="src/aes.cpp openssl_aes_encryptor: iv_enc_ and iv_dec_ merged into one iv_, so a decrypt leaves the (public) last cipher block as the IV of the next encrypt",
             needs="an aes* encryptor; decrypt(X) followed by encrypt(P) on the same encryptor, twice (load the incoming cookie, then save): equal payloads give identical cookies",
             first="missed (exit 0): IV freshness was only compared between two consecutive saves on one object (whose IVs still differed)",
             strengthened="C05 now explores every sequence of <= 5 (6) operations {encrypt p1/p2, decrypt x0/x1/damaged} on one encryptor and requires pairwise distinct first cipher blocks over all encrypt calls of all sequences"),
 "C06": dict(change="src/session_dual.cpp session_dual::save(): the server-side record of the incoming sid is no longer removed when the session is 'new' (which reset_session() also sets)",
             needs="location=both; session on the server; ONE request doing reset_session() and becoming client-storable (shrunk / on_server(false)); then the old sid replayed",
             first="missed (exit 0): one operation per request; and the BFS merged histories whose model states agree although the real storage differs",
             strengthened="two-operations-per-request configurations (42 ordered pairs); the real storage content (by token class) is part of the BFS state key"),
 "C07": dict(change="src/cache_interface.cpp cache_interface::fetch(): trigger propagation to enclosing recorders is skipped when the key is already in triggers_",
             needs="nested triggers_recorder / fetch of a key already recorded by an inner scope; then rise() of an indirect trigger",
             first="caught (exit 1): recorder trigger set {} instead of {f,tf}", strengthened=""),
 "C08": dict(change="src/cache_storage.cpp mem_cache::check_limits(): 'has the earliest-deadline entry expired?' computed once before the eviction loop",
             needs="process_shared cache under MEMORY pressure (>= 2 evictions in one store), at least one expired entry, fewer expired entries than evictions needed, live earliest-deadline entry not the LRU tail",
             first="missed (exit 0): eviction was only explored under an entry limit, where one store evicts one entry",
             strengthened="C08 memory-pressure pass: from a nearly full 512 KiB segment (6 prologue variants) every sequence of <= 4 (5) operations; evicted live entries must be an LRU prefix and none while an expired entry is left"),
 "C09": dict(change="src/cache_storage.cpp mem_cache::store(): the old entry is removed by a separate remove(key) before the write lock is taken (overwrite no longer atomic)",
             needs="a fetch or a second store of the same key scheduled inside the window; sequentially nothing changes",
             first="caught (exit 1): 20 non-linearizable histories under the cooperative scheduler; the free-running TSan pass additionally hung on the corrupted structure",
             strengthened="(robustness) the TSan sub-pass now runs under a time limit and a hang is reported as a violation"),
 "C10": dict(change="src/cache_over_ip.cpp cache_over_ip::store(): the value is kept in L1 with a generation from L1's own counter instead of being dropped from L1",
             needs="two L1 clients and a way for a node's local counter to coincide with the server generation of another node's overwrite (two servers, or an empty-key store)",
             first="caught (exit 1): stale L1 value served after another client's store", strengthened=""),
 "C11": dict(change="src/json.cpp parse_stream(): out.swap(result) moved before the trailing-EOF check",
             needs="load(..., full=true) of a complete value followed by a non-space token; target held a value before",
             first="caught (exit 1): failed parse modified the target", strengthened=""),
 "C12": dict(change="private/multipart_parser.h: bytes of a partial boundary match are re-emitted from the current read buffer instead of the saved boundary copy",
             needs="a read cut inside a boundary look-alike in the part body",
             first="caught (ASan heap-buffer-overflow in consume(); exit code was 2 because the dying shards starved the vacuity guards)",
             strengthened="(interface) an unlisted violation now always gives exit 1, even when guards are starved"),
 "C13": dict(change="src/internal_file_server.cpp file_server::is_in_root(): component-wise prefix test replaced by a plain string-prefix compare",
             needs="check_symlink on; a symlink inside the root resolving into a SIBLING whose name starts with the root's name (root -> root2, rootfile.txt)",
             first="missed (exit 0): the sandbox had such a sibling (root2) but no symlink into it",
             strengthened="sandbox now has directory and file symlinks into prefix-named siblings of the root and of both alias targets; 'sib' is a path segment; 9 more special paths"),
 "C14": dict(change="private/utf_iterator.h utf8::width(): bound 0x800 written as 0x7FF, so U+07FF is taken as 3 bytes wide",
             needs="exactly the bytes DF BF (rejected) or E0 9F BF (over-long, accepted)",
             first="caught (exit 1): 14 violations against the RFC 3629 reference", strengthened=""),
 "C15": dict(change="cppcms/steal_buf.h util::filterbuf: new xsputn() hands writes >= 128 bytes straight to convert() without flushing what is pending in the buffer",
             needs="inside one filter scope a short write followed by a single write of >= 128 bytes (an object whose operator<< writes several pieces)",
             first="missed (exit 0): every filter input was written as ONE piece",
             strengthened="C15 piecewise pass: objects written in 2 or 3 pieces with lengths around 64/128/256 through filters::escape/urlencode/base64_urlencode/raw, compared with the whole-text result"),
 "C16": dict(change="src/md5.cpp md5_process(): misaligned-input branch copies 16 bytes instead of 64",
             needs="a whole 64-byte block consumed directly from a caller buffer that is not 4-byte aligned",
             first="caught (exit 1): MD5 differs from the reference on a misaligned chunking", strengthened=""),
 "C17": dict(change="booster/lib/aio/src/io_service.cpp set_timer_event(): on table growth the new timer is put into the last slot of the old half (possibly occupied) instead of the first free slot of the new half",
             needs="~450+ simultaneously pending timers on one io_service, slot size-1 occupied at growth; then cancel by id",
             first="missed (exit 0): scenarios armed at most 4 timers",
             strengthened="C17 S6: N in {1..2500; thorough 20000} pending timers x 6 (16) generator shifts x 5 cancel/expire orders: ids pairwise distinct among pending timers, every handler exactly once with the right code"),
 "C18": dict(change="private/crc32.h crc32_calc::process_bytes(): feeds zlib in 4096-byte blocks without advancing the pointer, so the checksum only covers the first 4096 bytes",
             needs="values longer than 4096 bytes; a save torn at or after data byte 4096 over a previous value at least as long",
             first="missed (exit 0): largest payload was 1100 bytes",
             strengthened="payload kinds of 4500/5000/9000 bytes whose versions differ in two places beyond byte 4096, overwritten in 9 old->new pairs, all crash states"),
 "C19": dict(change="src/archive.cpp archive::str(string): the cursor is only rewound when the mode changes",
             needs="ONE archive object reused: already in load mode, something read, then str(new image) and a load",
             first="missed (exit 0): a fresh archive object per load",
             strengthened="C19 object pass: every sequence of <= 5 (6) operations (save/load/operator&/mode/reset/str(image)/copy/move/assign) on one archive against a (bytes, cursor, mode) model, shortest first"),
 "C20": dict(change="src/url_dispatcher.cpp option::matches(): plain method filters compare with strncmp over the filter's length (prefix match)",
             needs="a request method that extends a registered one (GETX, POSTS, DELETED)",
             first="missed (exit 0): methods were {GET, POST, HEAD, get, ''}",
             strengthened="methods now include GETX, GE, XGET, POSTS, GET|HEAD, HEADGET"),
}

# round 2: same protocol, the agents were additionally told which file the round-1 change touched and asked for a different function / clause
S2 = {
 "C01b": dict(change="src/http_api.cpp http::some_headers_data_read(): the 16K header-size check on total_read_ hoisted out of the more_data branch, so body bytes arriving with the end of the headers count as header bytes",
              needs="HTTP; header block straddling two reads with >= ~16K of body following in the second read",
              first="caught (exit 1): the read-answer explorer (one short first read of the 20000-byte POST) - 'reply is not a well-framed HTTP response'", strengthened=""),
 "C02b": dict(change="src/http_request.cpp skip_after_period() (cookie parsing): stops ON the ';'/',' instead of after it, so parse_cookies() spins forever in the event-loop thread",
              needs="a Cookie header in which a pair fails to parse and a ';' or ',' follows (`prefs={\"a\":1,\"b\":2}; sid=abc`, `a;; b=c`)",
              first="caught (exit 1): the header-form menu contains a Cookie header whose first pair does not parse; the loop stops answering (service-hung, probes and every later case fail)", strengthened=""),
 "C03b": dict(change="src/cgi_api.cpp connection::nonblocking_write(): pending_output_.clear() before its size is used, so `queued` bytes of new data are dropped when one write takes the whole queue plus part of the new data",
              needs="asynchronous mode; a non-empty pending queue from an earlier short write; then a write accepted partially beyond the queue",
              first="caught (exit 1): 10 violations (body-short / body-corrupt) in async partial-buffering programs under write deviations", strengthened=""),
 "C04b": dict(change="src/xss.cpp uri_parser::scheme(): '-' no longer accepted as a scheme character ('_' instead), so `ms-msdt:` falls through to the lax relative-reference branch and bypasses the scheme white list",
              needs="a uri / relative_uri property and a URI scheme containing '-' (ms-msdt:, view-source:, x-javascript:)",
              first="missed (exit 0): no attribute value with a hyphenated scheme was generated",
              strengthened="24 more attribute values: schemes using every character class RFC 3986 allows after the first letter ('-', '+', '.', digits) and near misses"),
 "C05b": dict(change="src/base64.cpp b64url::decoded_size(): `switch(s%4)` replaced by `s*3/4`, so a length of 1 (mod 4) is no longer refused: extended cookies are accepted and load writes 3 bytes past a heap buffer",
              needs="a cookie text whose body length is 1 (mod 4) and >= 5 (a valid cookie extended by one character)",
              first="missed (exit 0): tampering changed the decoded CIPHER text and re-encoded it; the cookie TEXT never had an impossible length",
              strengthened="text-level tampering: every single-character deletion, insertion at every (3rd) position, appending 1..6 characters, 'C'+n characters for n = 1..40; independent rule that no base64 text has length 1 (mod 4)"),
 "C06b": dict(change="src/session_memory_storage.cpp save(): the deadline index is only re-keyed `if(timeout!=to)` - evaluated after timeout was assigned, so never - and keeps the first save's deadline",
              needs="memory storage; a sid saved again with a later deadline; the clock past the first deadline but not the current one; then any save/remove (short_gc evicts the live session)",
              first="missed (exit 0): needs 5 transitions + audit in the request-level BFS (quick depth 4)",
              strengthened="the storages themselves as state machines: every sequence of <= 5 (6) storage operations (memory) / <= 3 (4) (files) over two sids from two starting states against a plain map"),
 "C07b": dict(change="src/cache_storage.cpp mem_cache::store(): returns early when the deadline is already past - before the old entry under the key is removed",
              needs="a live entry under K, then store(K, ..., deadline < now)",
              first="missed (exit 0): store deadlines were {now+2, none}",
              strengthened="stores with deadline now-1 and exactly now in the C07 and C08 alphabets (Op::dl <= -2)"),
 "C08b": dict(change="src/cache_storage.cpp string_equal: memcmp replaced by strncmp, so keys that agree up to an embedded NUL compare equal when they meet in one bucket",
              needs="binary keys with a NUL, equal length, same hash bucket",
              first="missed (exit 0): keys were one-letter strings",
              strengthened="C07/C08 configurations with binary keys that contain a NUL after a common first byte and have EQUAL PJW hash values (same bucket at every table size); printable key rendering in messages"),
 "C09b": dict(change="private/hash_map.h basic_map::find(): a found entry is moved to the head of its hash chain - under the cache's shared read lock",
              needs="two threads in fetch() at once and a fetched key that is not the head of its bucket (two live keys colliding)",
              first="missed (exit 0): keys 'a' and 'b' never share a bucket, so find() never walked a chain",
              strengthened="C09's two keys now have equal hash values; the data race is reported by the free-running ThreadSanitizer pass"),
 "C10b": dict(change="src/tcp_cache_server.cpp session::on_data_in(): the reply header is no longer fully reset per request, so after one `error` reply every later request on that connection is skipped",
              needs="one refused request on the connection (empty key / empty trigger name), then store/rise/clear on it and a fetch from another node",
              first="caught (exit 1): the BFS alphabet contains the odd trigger names that provoke an error reply", strengthened=""),
 "C11b": dict(change="src/json.cpp details::generic_append(): fast path `c >= 0x1F` instead of `> 0x1F`, so the byte 0x1F is written raw",
              needs="a string value or key containing 0x1F, saved and loaded back",
              first="caught (exit 1)", strengthened=""),
 "C12b": dict(change="src/http_request.cpp read_file(): the rewind before copying a plain multipart field into post() removed",
              needs="an application with a multipart_filter whose on_data_ready reads the part through file::data() and does not rewind",
              first="missed (exit 0): the harness' filter only logged callbacks",
              strengthened="filter modes that read each completed part fully / its first 3 bytes; the application must still get the whole field, and the filter must have seen the part"),
 "C13b": dict(change="src/internal_file_server.cpp file_server::main(): the index file of a directory is no longer re-validated against the root",
              needs="check_symlink on; a directory whose index.html is a symlink to outside; a request for the directory",
              first="missed (exit 0): no directory with a symlinked index file in the sandbox",
              strengthened="directories whose index.html is a symlink to outside, under the root and under an alias; 'lnkidx' is a path segment"),
 "C14b": dict(change="src/encoding.cpp validate_or_filter_single_byte_charset(): in removal mode pos++ runs after erase, so the byte after a removed byte is not tested",
              needs="single-byte code page, replace==0, two adjacent rejected bytes",
              first="caught (exit 1): 36 violations", strengthened=""),
 "C15b": dict(change="src/base64.cpp b64url::encode(begin,end,ostream): encodes in 4096-byte blocks (not a multiple of 3), so every non-final block ends in an unpadded tail",
              needs="the ostream / filter path with an input longer than 4096 bytes",
              first="missed (exit 0): lengths went up to 1024",
              strengthened="every length within +-4 of k*1024 (k = 2..17), 32768 and 65536 through all variants"),
 "C16b": dict(change="src/crypto.cpp hmac::init(): key_.size() > block_size became >=, so a key of exactly one block is hashed first",
              needs="an HMAC key of exactly 64 (128) bytes compared with an independent reference",
              first="caught (exit 1): 6 violations", strengthened=""),
 "C17b": dict(change="src/thread_pool.cpp worker(): the job slot lives outside the loop and is cleared only after a normal return, so a job that threw runs again at the next wake-up without a new job",
              needs="a throwing job, an empty queue, a later wake-up of the same worker (post or stop)",
              first="caught (exit 1): S5 - j2 ran 2 times", strengthened=""),
 "C18b": dict(change="src/session_posix_file_storage.cpp save_to_file(): the 16-byte header goes out in two write() calls (deadline, then crc+size)",
              needs="a crash exactly between the two writes over a previous valid file: old data resurfaces under the new deadline",
              first="caught (exit 1): an expired session is returned as live", strengthened=""),
 "C19b": dict(change="cppcms/archive_traits.h map/multimap loader: hinted insert with a never-advanced hint, so runs of equal keys in a multimap load in reverse order",
              needs="a multimap with >= 2 entries under one key and different mapped values",
              first="caught (exit 1): multimap<int,string> round trip", strengthened=""),
 "C20b": dict(change="src/url_mapper.cpp real_map(): the keyword-override map is kept in the mapper and cleared only by calls that have keywords",
              needs="map(\"key;lang\",\"ru\",...) followed by a keyword-less map(\"key\",...) hitting a {lang} placeholder on the same mapper",
              first="caught (exit 1): mapper round-trip programs", strengthened=""),
}
def first_violation(id):
    p = os.path.join(V, "seeded", id, "check_output.txt")
    if not os.path.exists(p): return None, None
    t = open(p).read(); m = re.search(r"^exit=(\d+)", t, re.M); w = re.search(r"^\s+what: (.*)$", t, re.M); n = len(re.findall(r"^VIOLATION", t, re.M))
    return (int(m.group(1)) if m else None), ("%d VIOLATION line(s); first: %s" % (n, w.group(1)[:300]) if w else "no VIOLATION line")
rows = []
ALL = dict(S); ALL.update(S2)
for id in sorted(ALL):
    d = ALL[id]; e, w = first_violation(id)
    meta = {"property": id[:3], "round": 2 if id.endswith("b") else 1, "change": d["change"], "needs_to_manifest": d["needs"],
            "confirmed": {"applies_and_builds": True, "baseline_stable_tests": "61/61 pass with the change (parallel run, port collisions retried serially)",
                          "demo_with_change": "exit != 0", "demo_without_change": "exit 0", "commands": [c.replace("/tmp/seeded_out/<ID>", ("/tmp/seeded2/"+id[:3]) if id.endswith("b") else "/tmp/seeded_out/"+id).replace("<ID>", id[:3] if "run_seeds" not in c else id) for c in CONFIRM]},
            "check_when_first_run": d["first"], "strengthening": d["strengthened"] or None,
            "check_now": {"command": "./check %s --tier quick (with patch.diff applied to /repo, reverted afterwards)" % id[:3], "exit": e, "output": w}}
    json.dump(meta, open(os.path.join(V, "seeded", id, "meta.json"), "w"), indent=1)
    rows.append("| %s | %s | %s | %s | %s |" % (id, d["change"].split(":")[0], d["needs"], d["first"].split(":")[0].split(" (")[0], ("exit %s" % e) if e is not None else "-"))
open(os.path.join(V, "seeded", "README.md"), "w").write("""# Seeded changes

Two realistic property-breaking changes per property (round 1: `Cnn`, round 2: `Cnnb`), each made by an independent sub-agent that was given only the
property text and a scratch worktree (nothing from /verif). Every change compiles, passes the 61 stable baseline tests,
and comes with a demonstration that fails with the change and passes without it (re-confirmed here with
`tools/confirm_seed.sh` and `tools/confirm_demo.sh`, in scratch worktrees outside /repo and /verif). None is committed
to /repo; `tools/run_seeds.sh` applies each to /repo, runs the property's quick check and restores /repo.

Per directory: `patch.diff`, the agent's `demo.*` and `REPORT.md`, `meta.json` (what it needs to manifest, what was run,
what the check said first and says now) and `check_output.txt` (the current check's output on the patched tree).

| id | changed | needs to manifest | check when first run | check now |
|---|---|---|---|---|
""" + "\n".join(rows) + """

Round 1: 12 of 20 missed when they arrived. Round 2 (agents told to stay away from the round-1 function): 9 of 20 missed.
Each miss was a dimension the driver did not enumerate (see `meta.json: strengthening`), not a weak oracle. All 40 are detected now.
""")
print("wrote", len(rows), "meta.json files and seeded/README.md")
