#!/usr/bin/env python3
"""Writes seeded/<ID>/meta.json and seeded/README.md from the table below plus the recorded check outputs
(seeded/<ID>/check_output.txt, produced by tools/run_seeds.sh). The table is maintained by hand: it records what each
independently seeded change is, what it needs to manifest, how it was confirmed and what happened to the check."""
import json, os, re, sys
V = os.path.dirname(os.path.dirname(os.path.abspath(__file__)))
CONFIRM = ["tools/confirm_seed.sh /tmp/seeded_out/<ID> <ID>   (scratch worktree: git apply, cmake+ninja RelWithDebInfo, ctest over the 61 stable baseline tests with serial retry of port collisions; then git -C /repo apply, ./check <ID> --tier quick, git -C /repo checkout -- .)",
           "tools/confirm_demo.sh /tmp/seeded_out/<ID> <ID>   (scratch worktree at /tmp/wt/<ID>: demo built against the patched library must exit != 0, after git apply -R and rebuild it must exit 0)",
           "tools/run_seeds.sh <ID>   (final run of the current check against the seed; output kept in check_output.txt)"]
S = {
 "C01": dict(change="src/fastcgi_api.cpp fastcgi::non_blocking_read_record(): the 'whole record buffered?' test no longer counts padding_length while the read still consumes the padding",
             needs="FastCGI; a PARAMS / empty STDIN record with padding > 0; a read boundary inside that record's padding; the preceding record in the same read (fast path)",
             first="missed (exit 0): reads were cut at every position only for unpadded streams <= 192 bytes; padded streams only on a boundary menu",
             strengthened="C01 now sends padded streams (pad 1, 7, 3+PARAMS cut) with one server-side read boundary at EVERY byte position (engine/wire.h forced segmentation); thorough: pairs of boundaries"),
 "C02": dict(change="private/string_map.h string_map::add(): the CGI-variable table grows at total >= size instead of total*2 >= size; get() for an absent key then spins forever on a 100% full table",
             needs="a well-formed request with exactly 64 (128, ...) CGI variables: 64 SCGI/FastCGI pairs or 54 HTTP header lines; then any lookup of an absent variable in the event-loop thread",
             first="missed (exit 0): the size menu covered header-block bytes and lengths, never the NUMBER of variables",
             strengthened="C02 now sweeps well-formed requests with N = 0..140, 245..257, 500..513, 1013..1025 extra headers per protocol and application kind; a stuck loop is reported as service-hung (two probes) instead of a shard time-out; Server::stop tolerates a stuck loop"),
 "C03": dict(change="src/fastcgi_api.cpp fastcgi::format_output(): reminder > 65535 became >=, so a flush of exactly 65535 bytes emits the never-prepared (all-zero) full-record header",
             needs="FastCGI; one flush of exactly 65535 bytes with no earlier larger flush on the same connection object",
             first="caught (exit 1): 'record version != 1' for program w7.f.w65535 (full buffering)", strengthened=""),
 "C04": dict(change="src/xss.cpp parse_html_entity(): long code_point became int, so numeric references >= 2^32 are judged by their low 32 bits",
             needs="numeric entities enabled; a reference with >= 9 hex / 10 decimal digits whose value mod 2^32 is an allowed code point (&#x10000003C;)",
             first="missed (exit 0): the lenient scanner accepted any syntactically valid numeric reference; no reference beyond 0x10FFFF was generated",
             strengthened="scanner and validate() now judged by the arbitrary-precision VALUE of a reference; entity pass: ~160 values at every boundary of the allowed set and beyond 2^32/2^64/2^96 x radix x case x leading zeros x 5 templates"),
 "C05": dict(change="src/aes.cpp openssl_aes_encryptor: iv_enc_ and iv_dec_ merged into one iv_, so a decrypt leaves the (public) last cipher block as the IV of the next encrypt",
             needs="an aes* encryptor; decrypt(X) followed by encrypt(P) on the same encryptor, twice (load the incoming cookie, then save): equal payloads give identical cookies",
             first="missed (exit 0): IV freshness was only compared between two consecutive saves on one object (whose IVs still differed)",
             strengthened="C05 now explores every sequence of <= 5 (6) operations {encrypt p1/p2, decrypt x0/x1/damaged} on one encryptor and requires pairwise distinct first cipher blocks over all encrypt calls of all sequences"),
 "C06": dict(change="src/session_dual.cpp session_dual::save(): the server-side record of the incoming sid is no longer removed when the session is 'new' (which reset_session() also sets)",
             needs="location=both; session on the server; ONE request doing reset_session() and becoming client-storable (shrunk / on_server(false)); then the old sid replayed",
             first="missed (exit 0): one operation per request; and the BFS merged histories whose model states agree although the real storage differs",
             strengthened="two-operations-per-request configurations (42 ordered pairs); the real storage content (by token class) is part of the BFS state key"),
 "C07": dict(change="src/cache_interface.cpp cache_interface::fetch(): trigger propagation to enclosing recorders is skipped when the key is already in triggers_",
             needs="nested triggers_recorder / fetch of a key already recorded by an inner scope; then rise() of an indirect trigger",
             first="caught (exit 1): recorder trigger set {} instead of {f,tf}", strengthened=""),
 "C08": dict(change="src/cache_storage.cpp mem_cache::check_limits(): 'has the earliest-deadline entry expired?' computed once before the eviction loop",
             needs="process_shared cache under MEMORY pressure (>= 2 evictions in one store), at least one expired entry, fewer expired entries than evictions needed, live earliest-deadline entry not the LRU tail",
             first="missed (exit 0): eviction was only explored under an entry limit, where one store evicts one entry",
             strengthened="C08 memory-pressure pass: from a nearly full 512 KiB segment (6 prologue variants) every sequence of <= 4 (5) operations; evicted live entries must be an LRU prefix and none while an expired entry is left"),
 "C09": dict(change="src/cache_storage.cpp mem_cache::store(): the old entry is removed by a separate remove(key) before the write lock is taken (overwrite no longer atomic)",
             needs="a fetch or a second store of the same key scheduled inside the window; sequentially nothing changes",
             first="caught (exit 1): 20 non-linearizable histories under the cooperative scheduler; the free-running TSan pass additionally hung on the corrupted structure",
             strengthened="(robustness) the TSan sub-pass now runs under a time limit and a hang is reported as a violation"),
 "C10": dict(change="src/cache_over_ip.cpp cache_over_ip::store(): the value is kept in L1 with a generation from L1's own counter instead of being dropped from L1",
             needs="two L1 clients and a way for a node's local counter to coincide with the server generation of another node's overwrite (two servers, or an empty-key store)",
             first="caught (exit 1): stale L1 value served after another client's store", strengthened=""),
 "C11": dict(change="src/json.cpp parse_stream(): out.swap(result) moved before the trailing-EOF check",
             needs="load(..., full=true) of a complete value followed by a non-space token; target held a value before",
             first="caught (exit 1): failed parse modified the target", strengthened=""),
 "C12": dict(change="private/multipart_parser.h: bytes of a partial boundary match are re-emitted from the current read buffer instead of the saved boundary copy",
             needs="a read cut inside a boundary look-alike in the part body",
             first="caught (ASan heap-buffer-overflow in consume(); exit code was 2 because the dying shards starved the vacuity guards)",
             strengthened="(interface) an unlisted violation now always gives exit 1, even when guards are starved"),
 "C13": dict(change="src/internal_file_server.cpp file_server::is_in_root(): component-wise prefix test replaced by a plain string-prefix compare",
             needs="check_symlink on; a symlink inside the root resolving into a SIBLING whose name starts with the root's name (root -> root2, rootfile.txt)",
             first="missed (exit 0): the sandbox had such a sibling (root2) but no symlink into it",
             strengthened="sandbox now has directory and file symlinks into prefix-named siblings of the root and of both alias targets; 'sib' is a path segment; 9 more special paths"),
 "C14": dict(change="private/utf_iterator.h utf8::width(): bound 0x800 written as 0x7FF, so U+07FF is taken as 3 bytes wide",
             needs="exactly the bytes DF BF (rejected) or E0 9F BF (over-long, accepted)",
             first="caught (exit 1): 14 violations against the RFC 3629 reference", strengthened=""),
 "C15": dict(change="cppcms/steal_buf.h util::filterbuf: new xsputn() hands writes >= 128 bytes straight to convert() without flushing what is pending in the buffer",
             needs="inside one filter scope a short write followed by a single write of >= 128 bytes (an object whose operator<< writes several pieces)",
             first="missed (exit 0): every filter input was written as ONE piece",
             strengthened="C15 piecewise pass: objects written in 2 or 3 pieces with lengths around 64/128/256 through filters::escape/urlencode/base64_urlencode/raw, compared with the whole-text result"),
 "C16": dict(change="src/md5.cpp md5_process(): misaligned-input branch copies 16 bytes instead of 64",
             needs="a whole 64-byte block consumed directly from a caller buffer that is not 4-byte aligned",
             first="caught (exit 1): MD5 differs from the reference on a misaligned chunking", strengthened=""),
 "C17": dict(change="booster/lib/aio/src/io_service.cpp set_timer_event(): on table growth the new timer is put into the last slot of the old half (possibly occupied) instead of the first free slot of the new half",
             needs="~450+ simultaneously pending timers on one io_service, slot size-1 occupied at growth; then cancel by id",
             first="missed (exit 0): scenarios armed at most 4 timers",
             strengthened="C17 S6: N in {1..2500; thorough 20000} pending timers x 6 (16) generator shifts x 5 cancel/expire orders: ids pairwise distinct among pending timers, every handler exactly once with the right code"),
 "C18": dict(change="private/crc32.h crc32_calc::process_bytes(): feeds zlib in 4096-byte blocks without advancing the pointer, so the checksum only covers the first 4096 bytes",
             needs="values longer than 4096 bytes; a save torn at or after data byte 4096 over a previous value at least as long",
             first="missed (exit 0): largest payload was 1100 bytes",
             strengthened="payload kinds of 4500/5000/9000 bytes whose versions differ in two places beyond byte 4096, overwritten in 9 old->new pairs, all crash states"),
 "C19": dict(change="src/archive.cpp archive::str(string): the cursor is only rewound when the mode changes",
             needs="ONE archive object reused: already in load mode, something read, then str(new image) and a load",
             first="missed (exit 0): a fresh archive object per load",
             strengthened="C19 object pass: every sequence of <= 5 (6) operations (save/load/operator&/mode/reset/str(image)/copy/move/assign) on one archive against a (bytes, cursor, mode) model, shortest first"),
 "C20": dict(change="src/url_dispatcher.cpp option::matches(): plain method filters compare with strncmp over the filter's length (prefix match)",
             needs="a request method that extends a registered one (GETX, POSTS, DELETED)",
             first="missed (exit 0): methods were {GET, POST, HEAD, get, ''}",
             strengthened="methods now include GETX, GE, XGET, POSTS, GET|HEAD, HEADGET"),
}
def first_violation(id):
    p = os.path.join(V, "seeded", id, "check_output.txt")
    if not os.path.exists(p): return None, None
    t = open(p).read(); m = re.search(r"^exit=(\d+)", t, re.M); w = re.search(r"^\s+what: (.*)$", t, re.M); n = len(re.findall(r"^VIOLATION", t, re.M))
    return (int(m.group(1)) if m else None), ("%d VIOLATION line(s); first: %s" % (n, w.group(1)[:300]) if w else "no VIOLATION line")
rows = []
for id in sorted(S):
    d = S[id]; e, w = first_violation(id)
    meta = {"property": id, "change": d["change"], "needs_to_manifest": d["needs"],
            "confirmed": {"applies_and_builds": True, "baseline_stable_tests": "61/61 pass with the change (parallel run, port collisions retried serially)",
                          "demo_with_change": "exit != 0", "demo_without_change": "exit 0", "commands": [c.replace("<ID>", id) for c in CONFIRM]},
            "check_when_first_run": d["first"], "strengthening": d["strengthened"] or None,
            "check_now": {"command": "./check %s --tier quick (with patch.diff applied to /repo, reverted afterwards)" % id, "exit": e, "output": w}}
    json.dump(meta, open(os.path.join(V, "seeded", id, "meta.json"), "w"), indent=1)
    rows.append("| %s | %s | %s | %s | %s |" % (id, d["change"].split(":")[0], d["needs"], d["first"].split(":")[0].split(" (")[0], ("exit %s" % e) if e is not None else "-"))
open(os.path.join(V, "seeded", "README.md"), "w").write("""# Seeded changes

One realistic property-breaking change per property, each made by an independent sub-agent that was given only the
property text and a scratch worktree (nothing from /verif). Every change compiles, passes the 61 stable baseline tests,
and comes with a demonstration that fails with the change and passes without it (re-confirmed here with
`tools/confirm_seed.sh` and `tools/confirm_demo.sh`, in scratch worktrees outside /repo and /verif). None is committed
to /repo; `tools/run_seeds.sh` applies each to /repo, runs the property's quick check and restores /repo.

Per directory: `patch.diff`, the agent's `demo.*` and `REPORT.md`, `meta.json` (what it needs to manifest, what was run,
what the check said first and says now) and `check_output.txt` (the current check's output on the patched tree).

| id | changed | needs to manifest | check when first run | check now |
|---|---|---|---|---|
""" + "\n".join(rows) + """

12 of the 20 changes were missed by the checks as they stood when the change arrived; each miss was a dimension the
driver did not enumerate (see `meta.json: strengthening`), not a weak oracle. All 20 are detected now.
""")
print("wrote", len(rows), "meta.json files and seeded/README.md")
