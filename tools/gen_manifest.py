#!/usr/bin/env python3
# Generates /verif/MANIFEST.json from the table below (kept in one place so it stays valid).
import json,os,sys
V=os.path.dirname(os.path.dirname(os.path.abspath(__file__)))
props=[json.loads(l) for l in open(V+'/properties.jsonl')]
ids=[p['id'] for p in props]
checks={}
def chk(id,engine,cat,text,note,tech):
    checks[id]=dict(property_id=id,quick_cmd="./check %s --tier quick"%id,thorough_cmd="./check %s --tier thorough"%id,
        evidence_file="evidence/%s.json"%id,replay_cmd_template="./check %s --replay {path}"%id,engine=engine,
        level_claimed=dict(category=cat,text=text,design_ref="DESIGN.md#%s"%id),level_note=note,technique=tech)
exec(open(V+'/tools/checks_table.py').read())
na=[dict(property_id=i,reason=NOT_YET.get(i,"check not built yet in this round; see DESIGN.md section 4 for the planned procedure")) for i in ids if i not in checks]
m=dict(version=1,setup_cmd="./setup.sh",
  hooks=dict(guard="CPPCMS_VERIF",enable="-DCPPCMS_VERIF is passed to every /verif/build/<flavour> build of /repo (no source hook exists: all seams are link-time interposition)",
     baseline_off_cmd="cmake --build /repo/_build && ctest --test-dir /repo/_build -j8 --timeout 900",source_commits=[],add_only=True),
  engines=ENGINES,checks=[checks[i] for i in ids if i in checks],not_applicable=na,
  notes="All checks explore the real code of /repo's working tree (static ASan/UBSan, TSan or -O2 builds under /verif/build). See DESIGN.md.")
json.dump(m,open(V+'/MANIFEST.json','w'),indent=1)
print("checks:",len(m['checks']),"not_applicable:",len(na))
