#!/bin/bash
# tools/confirm_seed.sh <dir-with-patch.diff> <PROPERTY-ID> [check-id ...]
# Confirms a seeded change the way the brief asks: in a scratch worktree of /repo (outside /repo and /verif) the patch
# applies, the tree builds, the 61 stable baseline tests still pass; then the patch is applied to /repo itself, the
# named checks are run (quick tier), and /repo is restored. Prints a summary; leaves nothing behind.
set -u
SRC="$1"; PID="$2"; shift 2; CHECKS="${*:-$PID}"
VERIF="$(cd "$(dirname "$0")/.." && pwd)"
WT=/tmp/confirm_$PID.$$
[ -f "$SRC/patch.diff" ] || { echo "no patch.diff in $SRC"; exit 2; }
git -C /repo worktree add -q --detach "$WT" HEAD || exit 2
trap 'git -C /repo worktree remove --force "$WT" >/dev/null 2>&1; rm -rf "$WT"' EXIT
if ! git -C "$WT" apply --index "$SRC/patch.diff" 2>/tmp/confirm_apply.$$; then echo "RESULT apply=FAILED $(head -3 /tmp/confirm_apply.$$)"; rm -f /tmp/confirm_apply.$$; exit 1; fi
rm -f /tmp/confirm_apply.$$
( cd "$WT" && cmake -G Ninja -B _build -DCMAKE_BUILD_TYPE=RelWithDebInfo -DCMAKE_CXX_FLAGS=-Wno-error . >/dev/null 2>&1 && ninja -C _build >/tmp/confirm_build.$$ 2>&1 ) || { echo "RESULT build=FAILED"; tail -5 /tmp/confirm_build.$$; rm -f /tmp/confirm_build.$$; exit 1; }
rm -f /tmp/confirm_build.$$
python3 - "$WT" "/tmp/confirm_baseline.$$.txt" <<'EOF'
import json,subprocess,sys,re
wt=sys.argv[1]
b=json.load(open('/root/.vp/BASELINE.json'))
stable=sorted(set(n.split('::')[0] for n in b['stable_pass']))
out=subprocess.run(['ctest','--test-dir',wt+'/_build','-j4','--timeout','900'],capture_output=True,text=True).stdout
failed=set(re.findall(r'- (\S+) \(',out))&set(stable)
still=[]
for t in sorted(failed):   # port collisions etc.: retry serially
    r=subprocess.run(['ctest','--test-dir',wt+'/_build','-R','^'+t+'$','--timeout','900'],capture_output=True,text=True)
    if '100% tests passed' not in r.stdout: still.append(t)
print("RESULT baseline_stable=%d failed_after_retry=%s"%(len(stable),still))
open(sys.argv[2],'w').write(','.join(still))
EOF
FAILED="$(cat /tmp/confirm_baseline.$$.txt)"; rm -f /tmp/confirm_baseline.$$.txt
# now the checks against /repo itself (serialised with any other user of /repo through /tmp/verif_repo.lock)
exec 9>/tmp/verif_repo.lock; flock 9
git -C /repo status --porcelain --untracked-files=no | grep -q . && { echo "/repo has uncommitted changes"; exit 2; }
git -C /repo apply "$SRC/patch.diff" || { echo "RESULT repo_apply=FAILED"; exit 1; }
for c in $CHECKS; do
  OUT="$(cd "$VERIF" && ./check $c --tier quick 2>&1)"; RC=$?
  echo "RESULT check=$c exit=$RC violations=$(echo "$OUT" | grep -c '^VIOLATION')"
  echo "$OUT" | grep -A2 '^VIOLATION' | grep 'what:' | head -2 | cut -c1-400
done
git -C /repo checkout -- . ; flock -u 9; git -C /repo status --porcelain --untracked-files=no | grep -q . && echo "WARNING: /repo not clean"
[ -z "$FAILED" ] && echo "RESULT baseline=PASS" || echo "RESULT baseline=FAIL ($FAILED)"
