// C20 - URL routing is deterministic, whole-string, first-match, and consistent with URL generation.
// A: every ordered list of 1..2 (thorough 3) handlers from a pattern family x method filters x every short path
//    x methods, vs a reference router over an own backtracking full-matcher.
// B: mount_point::match / applications_pool lookup over all orders of overlapping mount points.
// C: application trees (depth 1..3) where mapper entries and dispatcher patterns correspond: for every app, key
//    form and parameter tuple, url = app.url(key, params) routed from the root reaches the handler of that key
//    with those parameters; and every short path routed through the tree agrees with the reference router.
#include "vf.h"
#include <cppcms/service.h>
#include <cppcms/application.h>
#include <cppcms/applications_pool.h>
#include <cppcms/url_dispatcher.h>
#include <cppcms/url_mapper.h>
#include <cppcms/mount_point.h>
#include <cppcms/http_context.h>
#include <cppcms/http_request.h>
#include <cppcms/http_response.h>
#include <cppcms/json.h>
#include <booster/regex.h>
#include "/repo/tests/dummy_api.h"

// ---------------- reference full-matcher for the pattern family ------------------------------------------
struct RN { enum T {LIT,ANY,DIGIT,WORD,SEQ,ALT,GRP,STAR,PLUS,OPT} t; char c; int cap; std::vector<RN> k; RN():t(SEQ),c(0),cap(0){} };
struct RParser { const std::string &s; size_t p; int ncap; RParser(const std::string &x):s(x),p(0),ncap(0){}
	RN alt(){ RN a; a.t=RN::ALT; a.k.push_back(seq()); while(p<s.size()&&s[p]=='|'){ p++; a.k.push_back(seq()); } if(a.k.size()==1) return a.k[0]; return a; }
	RN seq(){ RN q; q.t=RN::SEQ; while(p<s.size()&&s[p]!='|'&&s[p]!=')'){ RN a=atom(); while(p<s.size()&&(s[p]=='*'||s[p]=='+'||s[p]=='?')){ RN w; w.t= s[p]=='*'?RN::STAR: s[p]=='+'?RN::PLUS:RN::OPT; w.k.push_back(a); a=w; p++; } q.k.push_back(a); } return q; }
	RN atom(){ RN a; char c=s[p++]; if(c=='('){ int my=++ncap; a.t=RN::GRP; a.cap=my; a.k.push_back(alt()); p++; /* ) */ return a; } if(c=='.'){ a.t=RN::ANY; return a; } if(c=='\\'){ char d=s[p++]; if(d=='d'){ a.t=RN::DIGIT; return a;} if(d=='w'){ a.t=RN::WORD; return a;} a.t=RN::LIT; a.c=d; return a; } a.t=RN::LIT; a.c=c; return a; } };
typedef std::vector<std::pair<long,long> > Caps;
static bool rm(const RN &n,const std::string &s,size_t pos,Caps &caps,const std::function<bool(size_t)> &k);
static bool rm_seq(const RN &n,size_t i,const std::string &s,size_t pos,Caps &caps,const std::function<bool(size_t)> &k){ if(i==n.k.size()) return k(pos); return rm(n.k[i],s,pos,caps,[&](size_t p2){ return rm_seq(n,i+1,s,p2,caps,k); }); }
static bool rm_star(const RN &inner,const std::string &s,size_t pos,Caps &caps,const std::function<bool(size_t)> &k,int min){ // greedy
	if(rm(inner,s,pos,caps,[&](size_t p2){ if(p2==pos) return false; return rm_star(inner,s,p2,caps,k,0); })) return true; if(min>0) return false; return k(pos); }
static bool rm(const RN &n,const std::string &s,size_t pos,Caps &caps,const std::function<bool(size_t)> &k){ switch(n.t){
	case RN::LIT: return pos<s.size()&&s[pos]==n.c&&k(pos+1);
	case RN::ANY: return pos<s.size()&&s[pos]!='\n'&&k(pos+1);
	case RN::DIGIT: return pos<s.size()&&s[pos]>='0'&&s[pos]<='9'&&k(pos+1);
	case RN::WORD: return pos<s.size()&&(isalnum((unsigned char)s[pos])||s[pos]=='_')&&k(pos+1);
	case RN::SEQ: return rm_seq(n,0,s,pos,caps,k);
	case RN::ALT: for(size_t i=0;i<n.k.size();i++) if(rm(n.k[i],s,pos,caps,k)) return true; return false;
	case RN::GRP: { std::pair<long,long> old=caps[n.cap]; if(rm(n.k[0],s,pos,caps,[&](size_t p2){ std::pair<long,long> o2=caps[n.cap]; caps[n.cap]=std::make_pair((long)pos,(long)p2); if(k(p2)) return true; caps[n.cap]=o2; return false; })) return true; caps[n.cap]=old; return false; }
	case RN::STAR: return rm_star(n.k[0],s,pos,caps,k,0);
	case RN::PLUS: return rm_star(n.k[0],s,pos,caps,k,1);
	case RN::OPT: if(rm(n.k[0],s,pos,caps,k)) return true; return k(pos); } return false; }
struct Pat { std::string src; RN root; int ncap; Pat(){} Pat(const std::string &s):src(s){ RParser p(s); root=p.alt(); ncap=p.ncap; }
	bool match(const std::string &s,std::vector<std::string> &groups) const { Caps caps(ncap+1,std::make_pair(-1L,-1L)); bool ok=rm(root,s,0,caps,[&](size_t p){ return p==s.size(); }); if(!ok) return false; groups.assign(ncap+1,""); groups[0]=s; for(int i=1;i<=ncap;i++) if(caps[i].first>=0) groups[i]=s.substr(caps[i].first,caps[i].second-caps[i].first); return true; } };

static void bad(const std::string &sig,const std::string &what,const std::string &cs){ vf::violation(sig,what+" ["+cs+"]","\"op\":"+vf::jstr(sig)+",\"case\":"+vf::jstr(cs)); }

// ---------------- A: dispatcher -------------------------------------------------------------------------------------
struct Entry { std::string pat; int arity; int g1,g2; }; // a handler variant
static std::vector<Entry> entries(){ Entry e[]={ {"/a",0,0,0},{"/a/?",0,0,0},{"/a.*",0,0,0},{"/(a|ab)",1,1,0},{"/ab?",0,0,0},{"/(\\d+)",1,1,0},{"/(\\d+)",1,0,0},{"/(\\w+)/(\\d+)",2,1,2},{"/(\\w+)/(\\d+)",2,2,1},{"(/x)?/y",1,1,0},{"/a(/.*)?",1,1,0},{".*",0,0,0},{"",0,0,0},{"/(a)(b)?",2,1,2} }; return std::vector<Entry>(e,e+sizeof(e)/sizeof(*e)); }
static std::vector<std::string> g_log; // handler invocations of the current dispatch
struct DispApp : public cppcms::application { DispApp(cppcms::service &s):cppcms::application(s){}
	void rec(int slot,const std::string &a="",const std::string &b=""){ g_log.push_back(std::to_string(slot)+"("+a+"|"+b+")"); }
	void s0_0(){ rec(0);} void s0_1(std::string a){ rec(0,a);} void s0_2(std::string a,std::string b){ rec(0,a,b);} void s1_0(){ rec(1);} void s1_1(std::string a){ rec(1,a);} void s1_2(std::string a,std::string b){ rec(1,a,b);} void s2_0(){ rec(2);} void s2_1(std::string a){ rec(2,a);} void s2_2(std::string a,std::string b){ rec(2,a,b);} };
static booster::shared_ptr<cppcms::http::context> make_ctx(cppcms::service &srv,const std::string &method,std::string &out){ std::map<std::string,std::string> env; env["HTTP_HOST"]="h"; env["SCRIPT_NAME"]="/s"; env["PATH_INFO"]="/p"; env["REQUEST_METHOD"]=method; booster::shared_ptr<dummy_api> api(new dummy_api(srv,env,out)); booster::shared_ptr<cppcms::http::context> c(new cppcms::http::context(api)); return c; }
static const char *FILTERS[]={"","GET","POST","(GET|HEAD)"};
static bool filter_admits(int f,const char *method){ if(f==0) return true; if(!method) return false; std::string m=method; if(f==1) return m=="GET"; if(f==2) return m=="POST"; return m=="GET"||m=="HEAD"; }
template<class F> void all_strings(const std::string &alpha,int maxlen,F f){ std::string cur; std::function<void(int)> rec=[&](int d){ f(cur); if(d==maxlen) return; for(size_t i=0;i<alpha.size();i++){ cur.push_back(alpha[i]); rec(d+1); cur.erase(cur.size()-1);} }; rec(0); }
static std::vector<std::string> g_inputs;
static void build_inputs(int len){ g_inputs.clear(); all_strings("/ab1xy",len,[&](const std::string &s){ g_inputs.push_back(s); }); const char *w[]={"/a","/a/","/ab","/abc","/12","/x/y","/y","/ab/12","/a/b/c","/a/x"}; for(int i=0;i<10;i++){ std::string s=w[i]; g_inputs.push_back(s+"\n"); g_inputs.push_back("\n"+s); g_inputs.push_back(s+"/"+s); g_inputs.push_back("x"+s); g_inputs.push_back(s+" "); g_inputs.push_back(s.substr(0,s.size()-1)); g_inputs.push_back(s+std::string(1,'\0')+"z"); } }

static void dispatcher_pass(cppcms::service &srv,int sh,int n,int maxlist){ std::vector<Entry> E=entries(); std::vector<Pat> P; for(size_t i=0;i<E.size();i++) P.push_back(Pat(E[i].pat));
	/* methods incl. proper extensions / prefixes / other case of the registered ones: a filter must match the WHOLE method */ const char *methods[]={"GET","POST","HEAD","get","","GETX","GE","XGET","POSTS","GET|HEAD","HEADGET"}; const int NM=11; std::string outs[NM]; booster::shared_ptr<cppcms::http::context> ctx[NM]; for(int m=0;m<NM;m++) ctx[m]=make_ctx(srv,methods[m],outs[m]);
	uint64_t cfgidx=0; std::vector<int> list; std::vector<int> filt;
	std::function<void()> run_cfg=[&](){ if((cfgidx++%n)!=(uint64_t)sh) return;
		// two registration styles: assign() (no method filter; works without context) and map() (filters; needs context)
		for(int style=0;style<2;style++){ DispApp app(srv); std::string cfgs;
			for(size_t i=0;i<list.size();i++){ const Entry &e=E[list[i]]; int f= style?filt[i]:0; cfgs+=e.pat+"#"+std::to_string(e.g1)+std::to_string(e.g2)+(f?std::string("@")+FILTERS[f]:"")+" ; ";
				if(style==0){ if(e.arity==0){ if(i==0) app.dispatcher().assign(e.pat,&DispApp::s0_0,&app); else if(i==1) app.dispatcher().assign(e.pat,&DispApp::s1_0,&app); else app.dispatcher().assign(e.pat,&DispApp::s2_0,&app); }
					else if(e.arity==1){ if(i==0) app.dispatcher().assign(e.pat,&DispApp::s0_1,&app,e.g1); else if(i==1) app.dispatcher().assign(e.pat,&DispApp::s1_1,&app,e.g1); else app.dispatcher().assign(e.pat,&DispApp::s2_1,&app,e.g1); }
					else { if(i==0) app.dispatcher().assign(e.pat,&DispApp::s0_2,&app,e.g1,e.g2); else if(i==1) app.dispatcher().assign(e.pat,&DispApp::s1_2,&app,e.g1,e.g2); else app.dispatcher().assign(e.pat,&DispApp::s2_2,&app,e.g1,e.g2); } }
				else { std::string me=FILTERS[f];
					#define MAPX(S) do{ if(e.arity==0){ if(f) app.dispatcher().map(me,e.pat,&DispApp::S##_0,&app); else app.dispatcher().map(e.pat,&DispApp::S##_0,&app); } else if(e.arity==1){ if(f) app.dispatcher().map(me,e.pat,&DispApp::S##_1,&app,e.g1); else app.dispatcher().map(e.pat,&DispApp::S##_1,&app,e.g1); } else { if(f) app.dispatcher().map(me,e.pat,&DispApp::S##_2,&app,e.g1,e.g2); else app.dispatcher().map(e.pat,&DispApp::S##_2,&app,e.g1,e.g2); } }while(0)
					if(i==0) MAPX(s0); else if(i==1) MAPX(s1); else MAPX(s2); } }
			for(int mi=(style?0:-1);mi<(style?NM:1);mi++){ const char *method= mi<0?0:methods[mi]; if(mi>=0) app.assign_context(ctx[mi]);
				for(size_t k=0;k<g_inputs.size();k++){ const std::string &in=g_inputs[k]; if(in.find('\0')!=std::string::npos&&false) continue; vf::eval(); g_log.clear(); bool r=app.dispatcher().dispatch(in);
					// reference
					std::string want; bool wr=false; std::string cin=in.c_str(); // the dispatcher matches the C string (bytes up to the first NUL)
					for(size_t i=0;i<list.size()&&!wr;i++){ const Entry &e=E[list[i]]; int f= style?filt[i]:0; if(!filter_admits(f,method)) continue; std::vector<std::string> g; if(!P[list[i]].match(cin,g)) continue; wr=true; want=std::to_string(i)+"("+(e.arity>=1?g[e.g1]:"")+"|"+(e.arity>=2?g[e.g2]:"")+")"; }
					std::string got; for(size_t q=0;q<g_log.size();q++) got+=g_log[q];
					if(r!=wr||got!=want){ std::string cs="handlers: "+cfgs+" method="+(method?method:"<no context>")+" path="+vf::vis(in); bad(std::string("route:")+(wr? (r? (g_log.size()>1?"multiple-handlers":"wrong-handler-or-args"):"missed") : "spurious"),"dispatch returned "+std::string(r?"true":"false")+" invoking ["+got+"], expected "+(wr?"["+want+"]":"no handler"),cs); }
					if(wr) vf::guard("dispatched"); else vf::guard("not_found"); if(in!=cin) vf::guard("inputs_with_nul");
					if(k<400) vf::outcome(cfgs+(method?method:"-")+in+">"+got);
					if(wr){ static uint64_t sc=0; if(vf::sample_tick(sc,5003)) vf::sample("{\"handlers\":"+vf::jstr(cfgs)+",\"method\":"+vf::jstr(method?method:"<no context>")+",\"path\":"+vf::jstr(vf::vis(in))+",\"invoked\":"+vf::jstr(got)+"}"); } }
				if(mi>=0) app.release_context(); } }
	};
	std::function<void(int)> rec=[&](int d){ if(d>0) { // enumerate filter assignments for the map() style: all for lists of 1, a diagonal for longer lists
			if(d==1){ for(int f=0;f<4;f++){ filt.assign(1,f); run_cfg(); } } else { for(int f=0;f<4;f++){ filt.assign(d,0); filt[0]=f; filt[d-1]=(f+1)%4; run_cfg(); } } }
		if(d==maxlist) return; for(size_t i=0;i<E.size();i++){ list.push_back(i); rec(d+1); list.pop_back(); } }; rec(0);
}

// ---------------- B: mount points ---------------------------------------------------------------------------------------
struct NullApp : public cppcms::application { NullApp(cppcms::service &s):cppcms::application(s){} };
static void mount_pass(cppcms::service &srv_unused,int sh,int n){ (void)srv_unused; using cppcms::mount_point; struct MP { int sel; std::string host,script,path; int group; };
	MP cand[]={ {0,"","","",0},{0,"","","/a(/.*)?",1},{0,"","","/a(/.*)?",0},{0,"","/s","",0},{0,"","/s","/(a|ab)",1},{0,"h","","",0},{0,"h.*","","/a",0},{1,"","/s(/.*)?","",1},{1,"","/s","",0},{1,"","/s.*","/a",0},{1,"h","(/s)?/t","",1},{0,"","/s","/a.*",0} };
	int NC=sizeof(cand)/sizeof(*cand); const char *hosts[]={"","h","hx","xh"}; const char *scripts[]={"","/s","/s/t","/sx","/t","/s/t\n"}; const char *paths[]={"","/a","/a/b","/ab","/abc","/b","/a\n","x/a"};
	std::vector<Pat> HP,SP,PP; for(int i=0;i<NC;i++){ HP.push_back(Pat(cand[i].host)); SP.push_back(Pat(cand[i].script)); PP.push_back(Pat(cand[i].path)); }
	auto refmatch=[&](int i,const std::string &h,const std::string &s,const std::string &p,std::string &out)->bool{ const MP &m=cand[i]; std::vector<std::string> g; if(!m.host.empty()&&!HP[i].match(h,g)) return false;
		if(m.sel==0){ if(!m.script.empty()&&!SP[i].match(s,g)) return false; if(m.path.empty()){ out=p; return true; } if(!PP[i].match(p,g)) return false; out=g[m.group]; return true; }
		else { if(!m.path.empty()&&!PP[i].match(p,g)) return false; if(m.script.empty()){ out=s; return true; } if(!SP[i].match(s,g)) return false; out=g[m.group]; return true; } };
	auto mk=[&](int i)->mount_point{ const MP &m=cand[i]; mount_point mp; mp.selection(m.sel?mount_point::match_script_name:mount_point::match_path_info); if(!m.host.empty()) mp.host(booster::regex(m.host)); if(!m.script.empty()) mp.script_name(booster::regex(m.script)); if(!m.path.empty()) mp.path_info(booster::regex(m.path)); mp.group(m.group); return mp; };
	// single mount points
	if(sh==0) for(int i=0;i<NC;i++){ mount_point mp=mk(i); for(int a=0;a<4;a++) for(int b=0;b<6;b++) for(int c=0;c<8;c++){ vf::eval(); std::pair<bool,std::string> r=mp.match(std::string(hosts[a]),std::string(scripts[b]),std::string(paths[c])); std::string want; bool w=refmatch(i,hosts[a],scripts[b],paths[c],want); if(r.first!=w||(w&&r.second!=want)) bad(std::string("mount-point:")+(w?(r.first?"wrong-subpath":"missed"):"spurious"),"mount_point::match gives ("+std::to_string(r.first)+","+vf::vis(r.second)+"), expected ("+std::to_string(w)+","+vf::vis(want)+")","mp#"+std::to_string(i)+" host="+hosts[a]+" script="+vf::vis(scripts[b])+" path="+vf::vis(paths[c])); vf::outcome("mp"+std::to_string(i)+hosts[a]+scripts[b]+paths[c]+(w?want:"-")); if(w) vf::guard("mount_matched"); } }
	// pools: every ordered pair and triple of mount points (triples: thorough)
	int idx=0; int maxk=vf::thorough()?3:2; std::vector<int> ord; std::function<void(int)> rec=[&](int d){ if(d>=2){ if((idx++%n)==sh){ cppcms::json::value cfg; cfg["service"]["api"]="http"; cfg["service"]["port"]=0; cfg["service"]["disable_global_exit_handling"]=true; cppcms::service srv(cfg); std::vector<booster::shared_ptr<cppcms::application_specific_pool> > pools;
				for(size_t i=0;i<ord.size();i++){ booster::shared_ptr<cppcms::application_specific_pool> p=cppcms::create_pool<NullApp>(); pools.push_back(p); srv.applications_pool().mount(p,mk(ord[i])); }
				for(int a=0;a<4;a++) for(int b=0;b<6;b++) for(int c=0;c<8;c++){ vf::eval(); std::string got; booster::shared_ptr<cppcms::application_specific_pool> r=srv.applications_pool().get_application_specific_pool(hosts[a],scripts[b],paths[c],got); int gi=-1; for(size_t i=0;i<pools.size();i++) if(pools[i]==r) gi=i; int wi=-1; std::string want; for(size_t i=0;i<ord.size();i++){ if(refmatch(ord[i],hosts[a],scripts[b],paths[c],want)){ wi=i; break; } }
					if(gi!=wi||(wi>=0&&got!=want)){ std::string cs="mounts:"; for(size_t i=0;i<ord.size();i++) cs+=" #"+std::to_string(ord[i]); cs+=std::string(" host=")+hosts[a]+" script="+vf::vis(scripts[b])+" path="+vf::vis(paths[c]); bad("pool:first-match","applications_pool selects mount "+std::to_string(gi)+" with sub-path "+vf::vis(got)+", expected mount "+std::to_string(wi)+" with "+vf::vis(want),cs); } if(wi>0) vf::guard("pool_later_mount_selected"); } } }
		if(d==maxk) return; for(int i=0;i<NC;i++){ bool used=false; for(size_t q=0;q<ord.size();q++) if(ord[q]==i) used=true; if(used) continue; ord.push_back(i); rec(d+1); ord.pop_back(); } }; rec(0);
}

// ---------------- B2: asynchronous applications mounted BY POINTER (the pool's second, "legacy" list) -------------------------------------------
// Every ordered triple of 4 mount points is mounted by pointer; optionally one of the three applications has served a request and was then dropped by its owner
// (the uninstall idiom), so its entry is dead when the next request arrives. For every request the FIRST request after that history must go to the first LIVE mount
// point in registration order that matches the whole path (with its group), else to none - a fresh service per (triple, dropped application, request), because
// purging a dead entry happens only once.
static void legacy_async_pass(int sh,int n){ using cppcms::mount_point; struct LM { const char *path; int group; }; LM cand[]={ {"/a",0},{"/a(/.*)?",1},{"/(a|ab)(/.*)?",2},{"(/.*)?",0} }; const int NC=4; const char *paths[]={"","/a","/a/b","/ab","/ab/c","/b","/abc","/a/"}; int idx=0;
	std::vector<Pat> PP; for(int i=0;i<NC;i++) PP.push_back(Pat(cand[i].path));
	for(int a=0;a<NC;a++) for(int b=0;b<NC;b++) for(int c=0;c<NC;c++){ if(a==b||b==c||a==c) continue; int ord[3]={a,b,c}; for(int dead=-1;dead<3;dead++) for(int pi=0;pi<8;pi++){ if((idx++%n)!=sh) continue; vf::eval();
		cppcms::json::value cfg; cfg["service"]["api"]="http"; cfg["service"]["port"]=0; cfg["service"]["disable_global_exit_handling"]=true; cppcms::service srv(cfg); booster::intrusive_ptr<cppcms::application> apps[3]; cppcms::application *raw[3];
		std::string cs="async applications mounted by pointer:"; for(int i=0;i<3;i++){ apps[i]=new NullApp(srv); raw[i]=apps[i].get(); mount_point mp; mp.selection(mount_point::match_path_info); mp.host(booster::regex("(h"+std::to_string(i)+"|any)")); mp.path_info(booster::regex(cand[ord[i]].path)); mp.group(cand[ord[i]].group); srv.applications_pool().mount(apps[i],mp); cs+=std::string(" ")+cand[ord[i]].path; }
		if(dead>=0){ // application `dead` serves one request (a host only it answers to), then its owner lets go of it
			std::string m; booster::shared_ptr<cppcms::application_specific_pool> p=srv.applications_pool().get_application_specific_pool(("h"+std::to_string(dead)).c_str(),"","/a",m); if(!p){ vf::guard("legacy_attach_impossible"); continue; } { booster::intrusive_ptr<cppcms::application> got=p->get(srv); if(got.get()!=raw[dead]){ bad("legacy:attach","the request addressed to one application's host was routed to another","setup "+cs); continue; } } apps[dead]=0; cs+=" ; #"+std::to_string(dead)+" served a request and was dropped"; }
		cs+=std::string(" ; request path=")+vf::vis(paths[pi]); vf::announce(cs);
		std::string got; booster::shared_ptr<cppcms::application_specific_pool> r=srv.applications_pool().get_application_specific_pool("any","",paths[pi],got); int gi=-1; if(r){ booster::intrusive_ptr<cppcms::application> ap=r->get(srv); for(int i=0;i<3;i++) if(i!=dead&&ap.get()==raw[i]) gi=i; if(gi<0) gi=99; }
		int wi=-1; std::string want; for(int i=0;i<3&&wi<0;i++){ if(i==dead) continue; std::vector<std::string> g; if(PP[ord[i]].match(paths[pi],g)){ wi=i; want=g[cand[ord[i]].group]; } }
		if(gi!=wi||(wi>=0&&got!=want)) bad("legacy:first-match","the request went to mounted application "+std::to_string(gi)+" with sub-path "+vf::vis(got)+", expected application "+std::to_string(wi)+" with "+vf::vis(want),cs);
		vf::guard("legacy_async_requests"); if(dead>=0&&wi>dead) vf::guard("legacy_requests_routed_past_a_dead_entry"); vf::outcome("lg|"+std::to_string(a)+std::to_string(b)+std::to_string(c)+"|"+std::to_string(dead)+"|"+paths[pi]+"|"+std::to_string(gi));
		{ static uint64_t sc=0; if(vf::sample_tick(sc,211)) vf::sample("{\"setup\":"+vf::jstr(cs)+",\"routed_to\":"+std::to_string(gi)+",\"sub_path\":"+vf::jstr(got)+"}",60); } } } }

// ---------------- C: application trees, mapper <-> dispatcher consistency -------------------------------------------
struct TreeApp : public cppcms::application { std::string name; TreeApp(cppcms::service &s,const std::string &n):cppcms::application(s),name(n){
		dispatcher().assign("/page/(\\d+)",&TreeApp::page,this,1); mapper().assign("page","/page/{1}");
		dispatcher().assign("/item/(\\w+)/(\\d+)",&TreeApp::item,this,1,2); mapper().assign("item","/item/{1}/{2}");
		dispatcher().assign("/(\\w+)/loc/(\\d+)",&TreeApp::loc,this,1,2); mapper().assign("loc","/{lang}/loc/{1}");
		dispatcher().assign("/?",&TreeApp::index,this); mapper().assign("/"); }
	void page(std::string a){ g_log.push_back(name+":page("+a+")"); } void item(std::string a,std::string b){ g_log.push_back(name+":item("+a+","+b+")"); } void loc(std::string l,std::string a){ g_log.push_back(name+":loc("+l+","+a+")"); } void index(){ g_log.push_back(name+":index()"); } };
struct Tree { TreeApp *root; std::vector<TreeApp*> all; std::map<TreeApp*,TreeApp*> parent; std::map<TreeApp*,std::map<std::string,TreeApp*> > kids; std::map<TreeApp*,std::string> path; };
static void tree_pass(cppcms::service &srv,int sh,int n){ // shapes: 0: root only; 1: root-sub; 2: root-sub-deep; 3: root-{sub,alt}; 4: root-sub-{deep,alt}
	int idx=0; for(int shape=0;shape<5;shape++) for(int mountstyle=0;mountstyle<2;mountstyle++){ if((idx++%n)!=sh) continue; std::string out; booster::shared_ptr<cppcms::http::context> ctx=make_ctx(srv,"GET",out);
		Tree T; TreeApp root(srv,"root"); TreeApp sub(srv,"sub"),deep(srv,"deep"),alt(srv,"alt"); T.root=&root; T.all.push_back(&root); T.path[&root]="";
		auto addc=[&](TreeApp &p,TreeApp &c,const std::string &nm){ if(mountstyle==0) p.add(c,nm,"/"+nm+"{1}","/"+nm+"(/.*)?",1); else p.add(c,nm,"/"+nm+"/x{1}","/"+nm+"/x((/.*)?)",1); T.all.push_back(&c); T.parent[&c]=&p; T.kids[&p][nm]=&c; T.path[&c]=T.path[&p]+"/"+nm; };
		if(shape>=1) addc(root,sub,"sub"); if(shape==2||shape==4) addc(sub,deep,"deep"); if(shape==3) addc(root,alt,"alt"); if(shape==4) addc(sub,alt,"alt");
		root.mapper().set_value("lang","en"); root.assign_context(ctx);
		// key forms from every app to every app
		const char *params1[]={"1","42"}; const char *paramsw[]={"ab","x1"};
		for(size_t fi=0;fi<T.all.size();fi++) for(size_t ti=0;ti<T.all.size();ti++){ TreeApp *from=T.all[fi],*to=T.all[ti]; std::vector<std::string> prefixes; // ways to name `to` from `from`
			prefixes.push_back(T.path[to].empty()?std::string("/"):T.path[to]+"/"); // absolute
			{ // relative: climb to the common ancestor with "..", then descend
				std::vector<TreeApp*> fa; for(TreeApp *a=from;a;a=T.parent.count(a)?T.parent[a]:0) fa.push_back(a); std::vector<TreeApp*> ta; for(TreeApp *a=to;a;a=T.parent.count(a)?T.parent[a]:0) ta.push_back(a);
				size_t up=0; TreeApp *common=0; for(;up<fa.size();up++){ bool f=false; for(size_t q=0;q<ta.size();q++) if(ta[q]==fa[up]){ f=true; } if(f){ common=fa[up]; break; } }
				std::string rel; for(size_t q=0;q<up;q++) rel+="../"; std::string down; for(TreeApp *a=to;a!=common;a=T.parent[a]) down=a->name+"/"+down; rel+=down; prefixes.push_back(rel); prefixes.push_back("./"+rel); }
			for(size_t pi=0;pi<prefixes.size();pi++){ const std::string &pre=prefixes[pi];
				for(int a=0;a<2;a++){ // page
					std::string key=pre+"page",url; vf::eval(); try{ url=from->url(key,params1[a]); }catch(std::exception const &e){ bad("mapper:throws","url() throws for a registered key: "+std::string(e.what()),"from="+from->name+" key="+key); continue; }
					g_log.clear(); root.main(url); std::string want=to->name+":page("+params1[a]+")"; if(g_log.size()!=1||g_log[0]!=want) bad("mapper:inconsistent","URL produced by the mapper does not route back to the handler of its key",std::string("shape=")+std::to_string(shape)+" style="+std::to_string(mountstyle)+" from="+from->name+" key="+key+" url="+url+" reached="+(g_log.empty()?"none":g_log[0])+" expected="+want); vf::outcome("k:"+from->name+key+url); vf::guard("mapper_roundtrips");
					for(int b=0;b<2;b++){ key=pre+"item"; vf::eval(); try{ url=from->url(key,paramsw[b],params1[a]); }catch(std::exception const &e){ bad("mapper:throws","url() throws for a registered key: "+std::string(e.what()),"from="+from->name+" key="+key); continue; } g_log.clear(); root.main(url); want=to->name+":item("+paramsw[b]+","+params1[a]+")"; if(g_log.size()!=1||g_log[0]!=want) bad("mapper:inconsistent","URL produced by the mapper does not route back to the handler of its key","from="+from->name+" key="+key+" url="+url+" reached="+(g_log.empty()?"none":g_log[0])+" expected="+want); vf::outcome("k:"+from->name+key+url); }
					// keyword parameter: default and override
					key=pre+"loc"; vf::eval(); try{ url=from->url(key,params1[a]); g_log.clear(); root.main(url); want=to->name+":loc(en,"+params1[a]+")"; if(g_log.size()!=1||g_log[0]!=want) bad("mapper:inconsistent-keyword","URL with a default keyword value does not route back","from="+from->name+" key="+key+" url="+url+" reached="+(g_log.empty()?"none":g_log[0])+" expected="+want);
						url=from->url(key+";lang","ru",params1[a]); g_log.clear(); root.main(url); want=to->name+":loc(ru,"+params1[a]+")"; if(g_log.size()!=1||g_log[0]!=want) bad("mapper:inconsistent-keyword","URL with an overridden keyword value does not route back","from="+from->name+" key="+key+";lang url="+url+" reached="+(g_log.empty()?"none":g_log[0])+" expected="+want); }catch(std::exception const &e){ bad("mapper:throws","url() throws for a keyword key: "+std::string(e.what()),"from="+from->name+" key="+key); } }
				// the application itself: key "" -> index (not for the "./" style ending in "/" which names the default url too)
				{ std::string key=pre; if(key.size()>1&&key[key.size()-1]=='/') key.erase(key.size()-1); if(key.empty()) key="."; vf::eval(); try{ std::string url=from->url(key); g_log.clear(); root.main(url); std::string want=to->name+":index()"; if(g_log.size()!=1||g_log[0]!=want) bad("mapper:inconsistent-default","default URL of an application does not route to it","from="+from->name+" key="+key+" url="+url+" reached="+(g_log.empty()?"none":g_log[0])+" expected="+want); }catch(std::exception const &e){ bad("mapper:throws","url() throws for an application key: "+std::string(e.what()),"from="+from->name+" key="+key); } } } }
		// every short path through the tree vs the reference router
		std::vector<std::string> ins; all_strings("/1as",vf::thorough()?6:5,[&](const std::string &s){ ins.push_back(s); }); const char *segs[]={"","/sub","/deep","/alt","/x","/page/1","/item/ab/2","/en/loc/3","/page/x","/sub/x","/","/page/1/"}; for(int a=0;a<12;a++) for(int b=0;b<12;b++) for(int c=0;c<12;c++) ins.push_back(std::string(segs[a])+segs[b]+segs[c]);
		Pat pp("/page/(\\d+)"),pi("/item/(\\w+)/(\\d+)"),pl("/(\\w+)/loc/(\\d+)"),px("/?");
		std::function<std::string(TreeApp*,const std::string&)> route=[&](TreeApp *a,const std::string &u)->std::string{ std::vector<std::string> g; if(pp.match(u,g)) return a->name+":page("+g[1]+")"; if(pi.match(u,g)) return a->name+":item("+g[1]+","+g[2]+")"; if(pl.match(u,g)) return a->name+":loc("+g[1]+","+g[2]+")"; if(px.match(u,g)) return a->name+":index()";
			// mounted children in registration order
			std::vector<std::pair<std::string,TreeApp*> > ks; if(a==&root){ if(shape>=1) ks.push_back(std::make_pair("sub",&sub)); if(shape==3) ks.push_back(std::make_pair("alt",&alt)); } if(a==&sub){ if(shape==2||shape==4) ks.push_back(std::make_pair("deep",&deep)); if(shape==4) ks.push_back(std::make_pair("alt",&alt)); }
			for(size_t i=0;i<ks.size();i++){ Pat mp(mountstyle==0? "/"+ks[i].first+"(/.*)?" : "/"+ks[i].first+"/x((/.*)?)"); if(mp.match(u,g)) return route(ks[i].second,g[1]); } return "404"; };
		for(size_t k=0;k<ins.size();k++){ vf::eval(); g_log.clear(); root.main(ins[k]); std::string got= g_log.empty()?"404":g_log[0]; std::string want=route(&root,ins[k]); if(g_log.size()>1||got!=want) bad("tree-route:"+std::string(want=="404"?"spurious":got=="404"?"missed":"wrong"),"request routed to "+got+", expected "+want,std::string("shape=")+std::to_string(shape)+" style="+std::to_string(mountstyle)+" path="+vf::vis(ins[k])); if(want!="404"&&want.compare(0,4,"root")) vf::guard("routed_to_nested_app"); if(k<300) vf::outcome("t"+std::to_string(shape)+ins[k]+got); }
		root.release_context(); }
}

int main(int argc,char **argv){ vf::init(argc,argv,"C20","exploration"); int n=16; bool th=vf::thorough(); build_inputs(th?5:4);
	vf::C().rule=std::string("A: every ordered list of 1..")+(th?"3":"2")+" handlers from 14 (pattern, group selection) variants, registered with assign() and with map() under method filters {none,GET,POST,(GET|HEAD)}, x every path of length <= "+(th?"5":"4")+" over {/ a b 1 x y} plus 70 edited witnesses (trailing newline, embedded NUL, prefix, suffix) x methods {GET,POST,HEAD,get,'',GETX,GE,XGET,POSTS,GET|HEAD,HEADGET,no context}; B2: every ordered triple of 4 mount points mounted BY POINTER (asynchronous applications), none or one of them having served a request and been dropped, x 8 paths, each on a fresh service; B: 12 mount points x 4 hosts x 6 script names x 8 paths, and every ordered pair (thorough: triple) of them mounted in an applications_pool; C: 5 application-tree shapes x 2 mount styles: every (from,to) application pair x {absolute, relative, ./relative} key forms x keys {page,item,loc,loc;lang,default} x parameter tuples, and every path of length <= "+(th?"6":"5")+" over {/ 1 a s} plus 1728 segment triples routed through the tree. Oracle: reference router over an own backtracking full-matcher. distinct = (configuration, input, handler+arguments)";
	vf::assume("reference matcher implements literals, ., \\d, \\w, groups, |, ?, *, + with Perl backtracking order; patterns are chosen so captures are unambiguous");
	vf::assume("relative order between the legacy asynchronous mount list and the main list is not checked");
	if(!vf::C().replay_file.empty()) printf("replay: C20 cases are deterministic functions of the configuration; re-running quick tier cases\n");
	vf::parallel(n,n,[&](int sh){ cppcms::json::value cfg; cfg["service"]["api"]="http"; cfg["service"]["port"]=0; cfg["service"]["disable_global_exit_handling"]=true; cfg["misc"]["invalid_url_throws"]=true; cppcms::service srv(cfg); dispatcher_pass(srv,sh,n,th?3:2); mount_pass(srv,sh,n); legacy_async_pass(sh,n); tree_pass(srv,sh,n); },1500);
	vf::require_guard("dispatched"); vf::require_guard("not_found"); vf::require_guard("mount_matched"); vf::require_guard("pool_later_mount_selected"); vf::require_guard("legacy_async_requests"); vf::require_guard("legacy_requests_routed_past_a_dead_entry"); vf::require_guard("mapper_roundtrips"); vf::require_guard("routed_to_nested_app");
	return vf::finish(); }
