// C16 - digests, HMAC and CBC compute the standard functions for all inputs and chunkings.
// The digest/HMAC object is explored as a state machine (every operation sequence up to a depth over
// {append(n) around the block boundaries, readout, clone}), plus every message length 0..2B+9 with every
// 2-chunking (3-chunking up to B+9), HMAC key-length classes, object reuse, AES-CBC chaining, and hex key
// parsing over all short strings. Reference: libcrypto one-shot EVP_Digest / HMAC / EVP_aes_*_cbc over the
// whole message, anchored by known-answer vectors embedded here.
#include "vf.h"
#include <cppcms/crypto.h>
#include <openssl/evp.h>
#include <openssl/hmac.h>

using namespace cppcms::crypto;
static const char *ALGOS[]={"md5","sha1","sha224","sha256","sha384","sha512"};
static const EVP_MD *evp(const std::string &a){ if(a=="md5") return EVP_md5(); if(a=="sha1") return EVP_sha1(); if(a=="sha224") return EVP_sha224(); if(a=="sha256") return EVP_sha256(); if(a=="sha384") return EVP_sha384(); return EVP_sha512(); }
static std::string ref_digest(const std::string &a,const std::string &m){ unsigned char out[64]; unsigned len=0; EVP_Digest(m.data(),m.size(),out,&len,evp(a),0); return std::string((char*)out,len); }
static std::string ref_hmac(const std::string &a,const std::string &k,const std::string &m){ unsigned char out[64]; unsigned len=0; HMAC(evp(a),k.data(),k.size(),(const unsigned char*)m.data(),m.size(),out,&len); return std::string((char*)out,len); }
static std::string rfc2104(const std::string &a,std::string k,const std::string &m,size_t B){ if(k.size()>B) k=ref_digest(a,k); k.resize(B,0); std::string i=k,o=k; for(size_t x=0;x<B;x++){ i[x]^=0x36; o[x]^=0x5c; } return ref_digest(a,o+ref_digest(a,i+m)); }
static std::string msg(size_t off,size_t n){ std::string s(n,0); for(size_t i=0;i<n;i++) s[i]=(char)(((off+i)*131+7+((off+i)>>8))&0xff); return s; }
static void bad(const std::string &sig,const std::string &what,const std::string &cs){ vf::violation(sig,what+" ["+cs+"]","\"op\":"+vf::jstr(sig)+",\"case\":"+vf::jstr(cs)); }
static std::string readout(message_digest &d){ std::string r(d.digest_size(),0); d.readout(&r[0]); return r; }

static bool kat(){ struct K{ const char *a,*m,*hex; } ks[]={
	{"md5","abc","900150983cd24fb0d6963f7d28e17f72"},{"md5","","d41d8cd98f00b204e9800998ecf8427e"},
	{"sha1","abc","a9993e364706816aba3e25717850c26c9cd0d89d"},{"sha1","abcdbcdecdefdefgefghfghighijhijkijkljklmklmnlmnomnopnopq","84983e441c3bd26ebaae4aa1f95129e5e54670f1"},
	{"sha224","abc","23097d223405d8228642a477bda255b32aadbce4bda0b3f7e36c9da7"},{"sha256","abc","ba7816bf8f01cfea414140de5dae2223b00361a396177a9cb410ff61f20015ad"},
	{"sha256","abcdbcdecdefdefgefghfghighijhijkijkljklmklmnlmnomnopnopq","248d6a61d20638b8e5c026930c3e6039a33ce45964ff2167f6ecedd419db06c1"},
	{"sha384","abc","cb00753f45a35e8bb5a03d699ac65007272c32ab0eded1631a8b605a43ff5bed8086072ba1e7cc2358baeca134c825a7"},
	{"sha512","abc","ddaf35a193617abacc417349ae20413112e6fa4e89a97ea20a9eeee64b55d39a2192992a274fc1a836ba3c23a3feebbd454d4423643ce80e2a9ac94fa54ca49f"}};
	bool ok=true; for(size_t i=0;i<sizeof(ks)/sizeof(*ks);i++) if(vf::hex(ref_digest(ks[i].a,ks[i].m))!=ks[i].hex){ fprintf(stderr,"harness error: libcrypto fails KAT %s(%s)\n",ks[i].a,ks[i].m); ok=false; }
	// RFC 2202 / 4231 HMAC vectors
	if(vf::hex(ref_hmac("md5",std::string(16,'\x0b'),"Hi There"))!="9294727a3638bb1c13f48ef8158bfc9d") ok=false;
	if(vf::hex(ref_hmac("sha1","Jefe","what do ya want for nothing?"))!="effcdf6ae5eb2fa2d27416d5f184df9c259a7c79") ok=false;
	if(vf::hex(ref_hmac("sha256",std::string(131,'\xaa'),"Test Using Larger Than Block-Size Key - Hash Key First"))!="60e431591ee0b67f0d8a26aacbf5b77f8e0bc6213728c5140546040f0ee37f54") ok=false;
	if(vf::hex(ref_hmac("sha1",std::string(80,'\xaa'),"Test Using Larger Than Block-Size Key - Hash Key First"))!="aa4ae5e15272d00e95705637ce8a3b55ed402112") ok=false;
	if(!ok) fprintf(stderr,"harness error: reference library failed a known-answer test\n"); return ok; }

// ---- state machine exploration of a digest object -------------------------------------------------
static void digest_sequences(const std::string &a,int depth){ std::unique_ptr<message_digest> probe=message_digest::create_by_name(a); if(!probe.get()){ bad("digest-missing:"+a,"create_by_name returns null",a); return; }
	size_t B=probe->block_size(); if(probe->digest_size()!=(unsigned)EVP_MD_size(evp(a))||B!=(size_t)EVP_MD_block_size(evp(a))) bad("digest-sizes:"+a,"digest_size/block_size differ from the standard",a);
	size_t sizes[]={0,1,B-9,B-8,B-1,B,B+1,2*B+7}; const int NOPS=10; // 8 appends, readout, clone
	std::vector<int> seq; std::function<void()> run=[&](){ // replay seq on a fresh object
		std::unique_ptr<message_digest> d=message_digest::create_by_name(a); std::string m; size_t off=0; std::string cs=a+":"; int readouts=0;
		for(size_t i=0;i<seq.size();i++){ int op=seq[i]; cs+=(op<8?"a"+std::to_string(sizes[op]):op==8?"R":"C"); cs+=" ";
			if(op<8){ std::string c=msg(off,sizes[op]); off+=sizes[op]; d->append(c.data(),c.size()); m+=c; }
			else if(op==8){ std::string got=readout(*d); if(got!=ref_digest(a,m)){ bad("digest-seq:"+a,"digest differs from the standard after an operation sequence (message length "+std::to_string(m.size())+", readout #"+std::to_string(readouts+1)+")",cs); return; } m.clear(); readouts++; vf::outcome(a+":"+std::to_string(m.size())+":"+vf::hex(got.substr(0,4))); }
			else { std::unique_ptr<message_digest> c(d->clone()); std::string got=readout(*c); if(got!=ref_digest(a,"")) { bad("digest-clone:"+a,"clone() is not a fresh object of the same algorithm",cs); return; } if(std::string(c->name())!=d->name()) bad("digest-clone-name:"+a,"clone() has another name",cs); }
		}
		std::string got=readout(*d); if(got!=ref_digest(a,m)) bad("digest-seq:"+a,"digest differs from the standard after an operation sequence (final, message length "+std::to_string(m.size())+")",cs); vf::eval(); if(readouts) vf::guard("digest_reused_after_readout"); { static uint64_t sc=0; if(vf::sample_tick(sc,3001)) vf::sample("{\"sequence\":"+vf::jstr(cs)+",\"final_digest_prefix\":"+vf::jstr(vf::hex(got.substr(0,6)))+"}"); } };
	std::function<void(int)> rec=[&](int d){ run(); if(d==depth) return; for(int op=0;op<NOPS;op++){ seq.push_back(op); rec(d+1); seq.pop_back(); } }; rec(0);
}
static void digest_chunkings(const std::string &a){ std::unique_ptr<message_digest> d=message_digest::create_by_name(a); size_t B=d->block_size(); size_t maxlen=2*B+9;
	for(size_t len=0;len<=maxlen;len++){ std::string m=msg(0,len),want=ref_digest(a,m); vf::outcome(a+":len"+std::to_string(len));
		for(size_t c1=0;c1<=len;c1++){ d->append(m.data(),c1); d->append(m.data()+c1,len-c1); vf::eval(); if(readout(*d)!=want){ bad("digest-chunk2:"+a,"digest of a message fed in two pieces differs from the standard",a+" len="+std::to_string(len)+" cut="+std::to_string(c1)); return; } }
		if(len<=B+9&&(vf::thorough()||len%3==0||len+12>=B)) for(size_t c1=0;c1<=len;c1++) for(size_t c2=c1;c2<=len;c2++){ d->append(m.data(),c1); d->append(m.data()+c1,c2-c1); d->append(m.data()+c2,len-c2); vf::eval(); if(readout(*d)!=want){ bad("digest-chunk3:"+a,"digest of a message fed in three pieces differs from the standard",a+" len="+std::to_string(len)+" cuts="+std::to_string(c1)+","+std::to_string(c2)); return; } vf::guard("three_chunkings"); } }
	// longer messages around multiples of the block
	for(size_t k=3;k<=(vf::thorough()?40u:9u);k++) for(int dl=-9;dl<=1;dl++){ size_t len=k*B+dl; std::string m=msg(5,len); d->append(m.data(),len/3); d->append(m.data()+len/3,len-len/3); vf::eval(); if(readout(*d)!=ref_digest(a,m)) bad("digest-long:"+a,"digest of a long message differs",a+" len="+std::to_string(len)); }
}
static void hmac_cases(const std::string &a){ size_t B=EVP_MD_block_size(evp(a)); size_t kl[]={0,1,B-1,B,B+1,3*B}; size_t ml[]={0,1,B-1,B,B+1,2*B+7};
	for(int ki=0;ki<6;ki++){ std::string k=msg(1000+ki,kl[ki]); key K(k.data(),k.size());
		{ hmac h(a,K); if(h.digest_size()!=(unsigned)EVP_MD_size(evp(a))) bad("hmac-size:"+a,"hmac digest_size differs",a);
		  // reuse across 3 messages, each with every 2-chunking
		  for(int rep=0;rep<3;rep++) for(int mi=0;mi<6;mi++){ std::string m=msg(rep*7+mi,ml[mi]); std::string want=ref_hmac(a,k,m); if(want!=rfc2104(a,k,m,B)){ fprintf(stderr,"harness error: HMAC references disagree\n"); vf::C().harness_error=true; }
			size_t step= (vf::thorough()||ml[mi]<=B+1)?1:13; for(size_t c=0;c<=m.size();c+=step){ h.append(m.data(),c); h.append(m.data()+c,m.size()-c); std::string got(h.digest_size(),0); h.readout(&got[0]); vf::eval(); if(got!=want){ bad("hmac:"+a+":key"+(kl[ki]>B?">B":kl[ki]==B?"=B":"<B"),"HMAC differs from RFC 2104 (key length "+std::to_string(kl[ki])+", message length "+std::to_string(m.size())+", use #"+std::to_string(rep*6+mi+1)+" of the object)",a+" key="+std::to_string(kl[ki])+" msg="+std::to_string(m.size())+" cut="+std::to_string(c)); goto next; } }
			vf::outcome("hmac:"+a+":"+std::to_string(kl[ki])+":"+std::to_string(ml[mi])); vf::guard("hmac_reuse"); } }
		{ hmac h2(message_digest::create_by_name(a),K); std::string m=msg(3,77); h2.append(m.data(),m.size()); std::string got(h2.digest_size(),0); h2.readout(&got[0]); if(got!=ref_hmac(a,k,m)) bad("hmac-ctor2:"+a,"HMAC built from a digest object differs",a); }
		next:; }
}
// one cbc object as a state machine: every sequence of <= depth operations {set_iv(A), set_iv(B), encrypt 1|2 blocks, decrypt 1|2 blocks} starting with set_iv, against
// the standard: each direction chains from the IV last set (or from the last cipher block it processed since)
static std::string evp_cbc(const EVP_CIPHER *ev,const std::string &k,const std::string &iv,const std::string &in,bool enc){ std::string out(in.size(),0); EVP_CIPHER_CTX *x=EVP_CIPHER_CTX_new(); EVP_CipherInit_ex(x,ev,0,(const unsigned char*)k.data(),(const unsigned char*)iv.data(),enc?1:0); EVP_CIPHER_CTX_set_padding(x,0); int ol=0,fl=0; EVP_CipherUpdate(x,(unsigned char*)&out[0],&ol,(const unsigned char*)in.data(),in.size()); EVP_CipherFinal_ex(x,(unsigned char*)&out[0]+ol,&fl); EVP_CIPHER_CTX_free(x); return out; }
static void cbc_sequences(int depth){ const char *names[]={"aes128","aes192","aes256"}; const EVP_CIPHER *ev[]={EVP_aes_128_cbc(),EVP_aes_192_cbc(),EVP_aes_256_cbc()}; cbc::cbc_type ty[]={cbc::aes128,cbc::aes192,cbc::aes256}; const char *opn[]={"set_iv(A)","set_iv(B)","encrypt(1 block)","encrypt(2 blocks)","decrypt(1 block)","decrypt(2 blocks)"};
	for(int t=0;t<3;t++){ std::unique_ptr<cbc> probe=cbc::create(ty[t]); if(!probe.get()) continue; std::string k=msg(61,probe->key_size()),ivA=msg(71,16),ivB=msg(83,16); std::vector<int> seq;
		std::function<void()> run=[&](){ std::unique_ptr<cbc> c=cbc::create(ty[t]); c->set_key(key(k.data(),k.size())); std::string ie,id,name; for(size_t i=0;i<seq.size();i++){ name+=(i?",":"")+std::string(opn[seq[i]]); } vf::eval();
			for(size_t i=0;i<seq.size();i++){ int op=seq[i]; if(op<=1){ const std::string &iv=op?ivB:ivA; c->set_iv(iv.data(),16); ie=iv; id=iv; } else { bool enc=op<=3; size_t n= (op%2==0)?16:32; std::string in=msg(300+(int)i*7+op,n),out(n,0); if(enc) c->encrypt(in.data(),&out[0],n); else c->decrypt(in.data(),&out[0],n); std::string want=evp_cbc(ev[t],k,enc?ie:id,in,enc); if(enc) ie=out.substr(n-16); else id=in.substr(n-16);
					if(out!=want){ bad(std::string("cbc-sequence:")+names[t],std::string("step ")+std::to_string(i+1)+" ("+opn[op]+") of sequence ["+name+"] on one cbc object differs from AES-CBC with the IV in force",std::string(names[t])+" "+name); return; } } }
			vf::guard("cbc_sequences"); };
		for(int len=2;len<=depth;len++){ std::function<void(int)> rec=[&](int d){ if(d==len){ run(); return; } for(int o=(d==0?0:0);o<(d==0?2:6);o++){ seq.push_back(o); rec(d+1); seq.pop_back(); } }; rec(0); } } }
static void cbc_cases(){ const char *names[]={"aes128","aes192","aes256"}; const EVP_CIPHER *ev[]={EVP_aes_128_cbc(),EVP_aes_192_cbc(),EVP_aes_256_cbc()}; cbc::cbc_type ty[]={cbc::aes128,cbc::aes192,cbc::aes256};
	for(int t=0;t<3;t++){ std::unique_ptr<cbc> c=cbc::create(ty[t]); if(!c.get()){ bad(std::string("cbc-missing:")+names[t],"cbc::create returns null",names[t]); continue; } if(c->block_size()!=16||c->key_size()!=(unsigned)EVP_CIPHER_key_length(ev[t])) bad(std::string("cbc-sizes:")+names[t],"block/key size differ",names[t]);
		{ std::unique_ptr<cbc> c2=cbc::create(std::string(names[t])); if(!c2.get()) bad(std::string("cbc-byname:")+names[t],"cbc::create(name) returns null",names[t]); }
		for(int kv=0;kv<3;kv++) for(int ivv=0;ivv<3;ivv++) for(int blocks=1;blocks<=4;blocks++){ std::string k=msg(50+kv*31,c->key_size()),iv=msg(90+ivv*17,16),pt=msg(200+blocks,16*blocks);
			// reference
			std::string want(pt.size(),0); { EVP_CIPHER_CTX *x=EVP_CIPHER_CTX_new(); EVP_EncryptInit_ex(x,ev[t],0,(const unsigned char*)k.data(),(const unsigned char*)iv.data()); EVP_CIPHER_CTX_set_padding(x,0); int ol=0,fl=0; EVP_EncryptUpdate(x,(unsigned char*)&want[0],&ol,(const unsigned char*)pt.data(),pt.size()); EVP_EncryptFinal_ex(x,(unsigned char*)&want[0]+ol,&fl); EVP_CIPHER_CTX_free(x); }
			std::string cs=std::string(names[t])+" key#"+std::to_string(kv)+" iv#"+std::to_string(ivv)+" blocks="+std::to_string(blocks);
			// one call
			{ std::unique_ptr<cbc> e=cbc::create(ty[t]); e->set_key(key(k.data(),k.size())); e->set_iv(iv.data(),16); std::string ct(pt.size(),0); e->encrypt(pt.data(),&ct[0],pt.size()); vf::eval(); if(ct!=want) bad(std::string("cbc-encrypt:")+names[t],"AES-CBC cipher text differs from the standard",cs);
			  std::unique_ptr<cbc> d=cbc::create(ty[t]); d->set_key(key(k.data(),k.size())); d->set_iv(iv.data(),16); std::string back(pt.size(),0); d->decrypt(ct.data(),&back[0],ct.size()); if(back!=pt) bad(std::string("cbc-identity:")+names[t],"decrypt(encrypt(x)) != x with the same key and IV",cs);
			  // same object decrypts what it encrypted after set_iv again
			  e->set_iv(iv.data(),16); std::string b2(pt.size(),0); e->decrypt(ct.data(),&b2[0],ct.size()); if(b2!=pt) bad(std::string("cbc-identity-sameobj:")+names[t],"same object: decrypt(encrypt(x)) != x after set_iv",cs); }
			// chained calls = one call, for every split at block granularity
			for(int cut=1;cut<blocks;cut++){ std::unique_ptr<cbc> e=cbc::create(ty[t]); e->set_key(key(k.data(),k.size())); e->set_iv(iv.data(),16); std::string ct(pt.size(),0); e->encrypt(pt.data(),&ct[0],16*cut); e->encrypt(pt.data()+16*cut,&ct[16*cut],pt.size()-16*cut); vf::eval(); if(ct!=want) bad(std::string("cbc-chain:")+names[t],"chained encrypt calls differ from one call",cs);
				std::unique_ptr<cbc> d=cbc::create(ty[t]); d->set_key(key(k.data(),k.size())); d->set_iv(iv.data(),16); std::string back(pt.size(),0); d->decrypt(want.data(),&back[0],16*cut); d->decrypt(want.data()+16*cut,&back[16*cut],pt.size()-16*cut); if(back!=pt) bad(std::string("cbc-chain-dec:")+names[t],"chained decrypt calls differ from one call",cs); vf::guard("cbc_chained"); }
			vf::outcome("cbc:"+cs); }
		// nonce IV as aes_cipher uses it: first block is a throw-away, the rest decrypts with any IV
		{ std::string k=msg(9,c->key_size()); std::unique_ptr<cbc> e=cbc::create(ty[t]); e->set_key(key(k.data(),k.size())); e->set_nonce_iv(); std::string pt=msg(1,48),ct(48,0); e->encrypt(pt.data(),&ct[0],48); std::unique_ptr<cbc> d=cbc::create(ty[t]); d->set_key(key(k.data(),k.size())); d->set_nonce_iv(); std::string back(48,0); d->decrypt(ct.data(),&back[0],48); vf::eval(); if(back.substr(16)!=pt.substr(16)) bad(std::string("cbc-nonce:")+names[t],"blocks after the first do not survive a nonce-IV round trip",names[t]); }
	}
}
static void key_cases(int depth,int sh,int n){ std::string alpha="09aFg \n"; std::string cur; uint64_t idx=0; std::string path=vf::scratch_dir()+"/key"+std::to_string(sh)+".txt";
	std::function<void(int)> rec=[&](int d){ if((idx++%n)==(uint64_t)sh){ vf::eval(); bool allhex=true; for(size_t i=0;i<cur.size();i++) if(!isxdigit((unsigned char)cur[i])) allhex=false; bool want=allhex&&cur.size()%2==0; std::string bytes=want?vf::unhex(cur):"";
			bool ok=true; key k; try{ k.set_hex(cur.data(),cur.size()); }catch(std::exception const &){ ok=false; }
			if(ok!=want) bad(want?"key-hex:refused":"key-hex:accepted","hex key parsing verdict wrong",vf::vis(cur)); else if(ok&&std::string(k.data(),k.size())!=bytes) bad("key-hex:value","hex key decodes to other bytes",vf::vis(cur));
			{ bool ok2=true; try{ key k2(cur); if(std::string(k2.data(),k2.size())!=bytes&&want) bad("key-hex:value-ctor","hex key (string ctor) decodes to other bytes",vf::vis(cur)); }catch(std::exception const &){ ok2=false; } if(ok2!=want) bad("key-hex:ctor-verdict","hex key (string ctor) verdict wrong",vf::vis(cur)); }
			// file: same text plus trailing white space; leading/inner white space is not stripped
			static const char *trail[]={"","\n"," \r\n\t"}; for(int t=0;t<3;t++){ std::string content=cur+trail[t]; FILE *f=fopen(path.c_str(),"wb"); fwrite(content.data(),1,content.size(),f); fclose(f); std::string core=content; while(!core.empty()&&strchr(" \n\r\t",core[core.size()-1])) core.erase(core.size()-1);
				bool chex=true; for(size_t i=0;i<core.size();i++) if(!isxdigit((unsigned char)core[i])) chex=false; bool fw=chex&&core.size()%2==0&&!content.empty(); bool fok=true; key fk; try{ fk.read_from_file(path); }catch(std::exception const &){ fok=false; }
				if(fok!=fw) bad(fw?"key-file:refused":"key-file:accepted","key file verdict wrong",vf::vis(content)); else if(fok&&std::string(fk.data(),fk.size())!=vf::unhex(core)) bad("key-file:value","key file decodes to other bytes",vf::vis(content)); vf::eval(); }
			vf::outcome("key:"+cur); if(want&&!cur.empty()) vf::guard("keys_accepted"); }
		if(d==depth) return; for(size_t i=0;i<alpha.size();i++){ cur.push_back(alpha[i]); rec(d+1); cur.erase(cur.size()-1);} }; rec(0); unlink(path.c_str()); }

int main(int argc,char **argv){ vf::init(argc,argv,"C16","exploration"); if(!kat()){ vf::C().harness_error=true; return vf::finish(); }
	int depth=vf::thorough()?5:4; int n=16;
	vf::C().rule="per algorithm in {md5,sha1,sha224,sha256,sha384,sha512}: every operation sequence of length <= "+std::to_string(depth)+" over {append(0,1,B-9,B-8,B-1,B,B+1,2B+7), readout, clone} with the digest compared at every readout; every message length 0..2B+9 with every 2-chunking and 3-chunkings up to B+9; long messages around k*B; HMAC with key lengths {0,1,B-1,B,B+1,3B} x message lengths x 2-chunkings x reuse of one object for 18 messages; AES-128/192/256-CBC 1..4 blocks x 3 keys x 3 IVs, chained vs single calls, nonce IV; hex keys: every string of length <= "+std::to_string(vf::thorough()?6:5)+" over {0,9,a,F,g,space,LF} via set_hex, string ctor and read_from_file with 3 trailers. distinct = distinct (algorithm, message length / key class / cipher case / key text) with its digest; all non-trivial";
	vf::assume("trusted base: OpenSSL libcrypto one-shot EVP_Digest/HMAC/EVP_aes_*_cbc anchored by FIPS 180-4 / RFC 2202 / RFC 4231 known-answer vectors embedded in the harness; HMAC additionally recomputed by the RFC 2104 formula");
	if(!vf::C().replay_file.empty()){ printf("replay: C16 cases are deterministic functions of the case description; re-running the quick tier\n"); }
	vf::parallel(n,n,[&](int sh){ // shard: algorithms x passes
		int job=0; for(int a=0;a<6;a++){ if((job++%n)==sh) digest_sequences(ALGOS[a],depth); if((job++%n)==sh) digest_chunkings(ALGOS[a]); if((job++%n)==sh) hmac_cases(ALGOS[a]); } if((job++%n)==sh) cbc_cases(); if((job++%n)==sh) cbc_sequences(vf::thorough()?6:5); key_cases(vf::thorough()?6:5,sh,n); },1500);
	vf::require_guard("digest_reused_after_readout"); vf::require_guard("three_chunkings"); vf::require_guard("hmac_reuse"); vf::require_guard("cbc_chained"); vf::require_guard("cbc_sequences"); vf::require_guard("keys_accepted");
	return vf::finish(); }
