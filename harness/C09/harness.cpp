// C09 - concurrent cache use is race-free and behaves like some sequential order.
// Stateless model checking of the real thread-shared cache under a preemption-bounded cooperative scheduler
// (engine/coop_sched.h): thread programs over a 9-operation alphabet (all pairs, all triples, 2x2 programs) x initial
// states x limits; every schedule up to the preemption bound (all schedules for two single-operation threads). Each
// recorded history (invoke/response stamps, results) must be linearizable w.r.t. the set-valued cache model of C07,
// the final audit must match a witnessing order, and no schedule may deadlock. The data-race clause is decided by a
// separate free-running ThreadSanitizer pass of the same programs (sub-pass "tsan").
#include "vf.h"
#include "cache_model.h"
#include "cache_storage.h"
#include <atomic>
#include <memory>
#include <mutex>
#ifndef C09_TSAN_PASS
#include "coop_sched.h"
#else
#include <thread>
#endif

static time_t g_now=1000000; extern "C" time_t time(time_t *t){ if(t) *t=g_now; return g_now; }
using cm::Op;
// the two keys have the same hash value, so they always share a bucket of the cache's hash table: operations on one walk past the other
static const std::string KA("\0",1), KB("\0\0",2); // one NUL and two NULs: both hash to 0 (same bucket at every table size) AND the first is a proper prefix of the second
static std::vector<Op> alphabet(){ std::vector<Op> v; Op o; o.k=Op::FETCH; o.key=KA; v.push_back(o); o.key=KB; v.push_back(o); { Op s; s.k=Op::STORE; s.key=KA; s.trig.insert("t"); s.dl=-1; v.push_back(s); } { Op s; s.k=Op::STORE; s.key=KA; s.dl=-1; v.push_back(s); } { Op s; s.k=Op::STORE; s.key=KB; s.trig.insert("t"); s.dl=-1; v.push_back(s); } { Op r; r.k=Op::RISE; r.key="t"; v.push_back(r); } { Op r; r.k=Op::REMOVE; r.key=KA; v.push_back(r); } { Op c; c.k=Op::CLEAR; v.push_back(c); } { Op s; s.k=Op::STATS; v.push_back(s); } return v; }
struct Init { std::string label; unsigned limit; std::vector<Op> ops; };
static std::vector<Init> inits(){ std::vector<Init> v; std::vector<Op> A=alphabet(); Init e; e.label="empty"; e.limit=0; v.push_back(e); Init a; a.label="{a}"; a.limit=0; a.ops.push_back(A[2]); v.push_back(a); Init ab; ab.label="{a,b}@limit2"; ab.limit=2; ab.ops.push_back(A[2]); ab.ops.push_back(A[4]); v.push_back(ab); Init a1; a1.label="{a}@limit1"; a1.limit=1; a1.ops.push_back(A[3]); v.push_back(a1); return v; }

struct Event { int thread; int opidx; Op op; long inv,res; std::string obs; int store_id; };
struct Exec { booster::intrusive_ptr<cppcms::impl::base_cache> cache; std::vector<Event> hist; std::atomic<long> clock; std::atomic<int> stores; std::map<std::string,int> value_of; Exec():clock(0),stores(0){} };
// apply one op to the real cache, producing the same observation strings as cm::Real (values are "v<id>")
static std::string do_op(Exec &x,const Op &op,int &store_id){ store_id=0; switch(op.k){ case Op::STORE:{ store_id= ++x.stores; x.cache->store(op.key,"v"+std::to_string(store_id),op.trig,cm::FOREVER); return "ok"; } case Op::FETCH:{ std::string v; std::set<std::string> tr; time_t d=0; uint64_t gen=0; if(!x.cache->fetch(op.key,&v,&tr,&d,&gen)) return "miss"; int id= (v.size()>=2&&v[0]=='v')?atoi(v.c_str()+1):-1; if(v!="v"+std::to_string(id)) id=-2; return cm::obs_hit(id,tr,d); }
	case Op::RISE: x.cache->rise(op.key); return "ok"; case Op::REMOVE: x.cache->remove(op.key); return "ok"; case Op::CLEAR: x.cache->clear(); return "ok"; case Op::STATS:{ unsigned k=0,t=0; x.cache->stats(k,t); return "keys="+std::to_string(k)+" triggers="+std::to_string(t); } default: return "ok"; } }
// model with explicit store ids (so that concurrent stores keep the ids the real execution used)
static bool lin_search(const cm::Model &M0,const std::vector<Event> &H,std::vector<int> &order,std::vector<bool> &used,const std::vector<Event> &audit,std::string &why){ if(order.size()==H.size()){ cm::Model M=M0; for(size_t i=0;i<audit.size();i++){ if(!M.step(audit[i].op,audit[i].obs)) { why="final audit disagrees"; return false; } } return true; }
	for(size_t i=0;i<H.size();i++){ if(used[i]) continue; bool ok=true; for(size_t j=0;j<H.size();j++) if(!used[j]&&j!=i&&H[j].res<H[i].inv){ ok=false; break; } if(!ok) continue; cm::Model M=M0; if(H[i].op.k==Op::STORE) M.stores=H[i].store_id-1; if(!M.step(H[i].op,H[i].obs)) continue; used[i]=true; order.push_back(i); if(lin_search(M,H,order,used,audit,why)) return true; order.pop_back(); used[i]=false; } return false; }

static std::string prog_str(const std::vector<std::vector<int> > &progs,const std::vector<Op> &A){ std::string s; for(size_t t=0;t<progs.size();t++){ s+="T"+std::to_string(t)+"["; for(size_t i=0;i<progs[t].size();i++) s+=(i?"; ":"")+A[progs[t][i]].str(); s+="] "; } return s; }
#ifndef C09_TSAN_PASS
// ---- finer scheduling points -------------------------------------------------------------------------------------------
// src/cache_storage.cpp (with private/hash_map.h) is compiled INTO this harness with -finstrument-functions, so every function
// entry of the cache code calls the hook below. g_fine=1: entering any std::atomic / __atomic_base member is a scheduling
// point (atomics are synchronisation operations). g_fine=2: additionally every function entry while the thread holds the
// shared (reader) side of the cache lock - the region where other threads can run inside the cache at the same time.
#include <unordered_map>
static int g_fine=1; static thread_local bool tl_in_op=false,tl_in_hook=false; static uint64_t n_fine_atomic=0,n_fine_reader=0;
extern "C" { void __cyg_profile_func_enter(void*,void*) __attribute__((no_instrument_function)); void __cyg_profile_func_exit(void*,void*) __attribute__((no_instrument_function)); }
static bool is_atomic_fn(void *fn){ static std::unordered_map<void*,bool> cache; std::unordered_map<void*,bool>::iterator i=cache.find(fn); if(i!=cache.end()) return i->second; Dl_info di; bool at=false; if(dladdr(fn,&di)&&di.dli_sname){ const char *n=di.dli_sname; at= strstr(n,"St6atomic")||strstr(n,"__atomic_base")||strstr(n,"atomic_flag")||strstr(n,"atomic_counter"); } cache[fn]=at; return at; }
extern "C" void __cyg_profile_func_enter(void *fn,void*){ if(!g_fine||!tl_in_op||tl_in_hook||sched::tl_in_sched||!sched::G.active||sched::tl_id<0) return; tl_in_hook=true; if(is_atomic_fn(fn)){ n_fine_atomic++; sched::fine_point(); } else if(g_fine>=2&&sched::holds_shared(sched::tl_id)){ n_fine_reader++; sched::fine_point(); } tl_in_hook=false; }
extern "C" void __cyg_profile_func_exit(void*,void*){}
static uint64_t n_exec=0,n_overlap_hist=0;
static void check_program(const Init &in,const std::vector<std::vector<int> > &progs,int bound,const std::vector<Op> &A){ std::string cs="init="+in.label+" "+prog_str(progs,A); vf::announce(cs); std::shared_ptr<Exec> cur; std::set<std::string> outcomes;
	auto factory=[&]()->std::vector<std::function<void()> >{ cur.reset(new Exec()); cur->cache=cppcms::impl::thread_cache_factory(in.limit); for(size_t i=0;i<in.ops.size();i++){ int sid; do_op(*cur,in.ops[i],sid); } std::vector<std::function<void()> > b; std::shared_ptr<Exec> x=cur; for(size_t t=0;t<progs.size();t++){ std::vector<int> pr=progs[t]; b.push_back([x,pr,t,&A](){ for(size_t i=0;i<pr.size();i++){ Event e; e.thread=t; e.opidx=pr[i]; e.op=A[pr[i]]; e.inv=++x->clock; int sid=0; tl_in_op=true; e.obs=do_op(*x,e.op,sid); tl_in_op=false; e.store_id=sid; e.res=++x->clock; /* only one thread runs at a time */ x->hist.push_back(e); } }); } return b; };
	auto after=[&](const sched::Result &r){ n_exec++; vf::eval(); vf::C().traces++; vf::C().transitions+=r.points.size(); if(r.deadlock){ vf::violation("deadlock:"+in.label,"a schedule deadlocks: not every operation completes ["+cs+" schedule="+r.choices+"]","\"case\":"+vf::jstr(cs)+",\"schedule\":"+vf::jstr(r.choices)); return; }
		Exec &x=*cur; // audit (single-threaded, after all threads finished)
		std::vector<Event> audit; { Op st; st.k=Op::STATS; Event e; e.op=st; int sid; e.obs=do_op(x,st,sid); audit.push_back(e); std::string ks[]={KA,KB}; for(int k=0;k<2;k++){ Op f; f.k=Op::FETCH; f.key=ks[k]; Event e2; e2.op=f; e2.obs=do_op(x,f,sid); audit.push_back(e2); } }
		cm::Model M(in.limit,g_now); for(size_t i=0;i<in.ops.size();i++){ M.step(in.ops[i],"ok"); } std::vector<int> order; std::vector<bool> used(x.hist.size(),false); std::string why; std::vector<Event> H=x.hist;
		bool overlap=false; for(size_t i=0;i<H.size();i++) for(size_t j=0;j<H.size();j++) if(i!=j&&H[i].inv<H[j].res&&H[j].inv<H[i].res) overlap=true; if(overlap) n_overlap_hist++;
		if(!lin_search(M,H,order,used,audit,why)){ std::string hs; for(size_t i=0;i<H.size();i++) hs+="T"+std::to_string(H[i].thread)+":"+H[i].op.str()+"@["+std::to_string(H[i].inv)+","+std::to_string(H[i].res)+"]->"+H[i].obs+"; "; std::string as; for(size_t i=0;i<audit.size();i++) as+=audit[i].op.str()+"->"+audit[i].obs+"; "; bool fetch_involved=false; for(size_t i=0;i<H.size();i++) if(H[i].op.k==Op::FETCH&&H[i].obs!="miss") fetch_involved=true; vf::violation(std::string("not-linearizable:")+(fetch_involved?"fetch-result":"final-state")+":"+in.label,"no sequential order consistent with real time explains the history: "+hs+" audit: "+as+" ["+cs+" schedule="+r.choices+"]","\"case\":"+vf::jstr(cs)+",\"schedule\":"+vf::jstr(r.choices)); }
		std::string oc; for(size_t i=0;i<H.size();i++) oc+=H[i].obs+"|"; for(size_t i=0;i<audit.size();i++) oc+=audit[i].obs+"|"; outcomes.insert(oc); vf::outcome(cs+oc); { static uint64_t sc=0; if(vf::sample_tick(sc,4001)) vf::sample("{\"program\":"+vf::jstr(cs)+",\"schedule\":"+vf::jstr(r.choices)+",\"scheduling_points\":"+std::to_string(r.points.size())+",\"linearizable\":true}"); } };
	bool complete=true; sched::explore(bound,factory,after,&complete,[](){ return vf::deadline_reached()||vf::nviol()>30; }); if(!complete) vf::C().exhaustive=false; vf::C().states+=outcomes.size(); if(outcomes.size()>1) vf::guard("programs_with_several_outcomes"); }
static void shard(int sh,int n){ bool th=vf::thorough(); std::vector<Op> A=alphabet(); std::vector<Init> I=inits(); uint64_t idx=0; int NA=A.size();
	// 2 threads x 1 op: ALL schedules
	for(size_t ii=0;ii<I.size();ii++) for(int a=0;a<NA;a++) for(int b=0;b<NA;b++){ if((idx++%n)!=(uint64_t)sh) continue; std::vector<std::vector<int> > p(2); p[0].push_back(a); p[1].push_back(b); check_program(I[ii],p,-1,A); vf::guard("pairs_all_schedules"); }
	// 3 threads x 1 op: <= 2 preemptions (thorough 3)
	for(size_t ii=0;ii<I.size();ii++) for(int a=0;a<NA;a++) for(int b=a;b<NA;b++) for(int c=b;c<NA;c++){ if((idx++%n)!=(uint64_t)sh) continue; if(!th&&ii%2==1&&(a+b+c)%2) continue; std::vector<std::vector<int> > p(3); p[0].push_back(a); p[1].push_back(b); p[2].push_back(c); check_program(I[ii],p,th?3:2,A); vf::guard("triples"); }
	// 2 threads x 2 ops from a 6-operation subset: <= 2 preemptions (thorough 3)
	{ int sub[]={0,2,3,5,6,7}; for(size_t ii=0;ii<I.size();ii++) for(int a=0;a<6;a++) for(int b=0;b<6;b++) for(int c=0;c<6;c++) for(int d=0;d<6;d++){ if((idx++%n)!=(uint64_t)sh) continue; if(!th&&(a+b+c+d+ii)%3) continue; std::vector<std::vector<int> > p(2); p[0].push_back(sub[a]); p[0].push_back(sub[b]); p[1].push_back(sub[c]); p[1].push_back(sub[d]); check_program(I[ii],p,th?3:2,A); vf::guard("two_by_two"); } }
	// fine-grained pass: two threads, one operation each, scheduling points ALSO at every function entry of the cache code inside a reader section: <= 1 preemption (thorough 2 when both are fetches)
	g_fine=2; for(size_t ii=0;ii<I.size();ii++) for(int a=0;a<NA;a++) for(int b=0;b<NA;b++){ if((idx++%n)!=(uint64_t)sh) continue; bool ff= A[a].k==Op::FETCH&&A[b].k==Op::FETCH; if(!ff&&a>b) continue; std::vector<std::vector<int> > p(2); p[0].push_back(a); p[1].push_back(b); check_program(I[ii],p,(th&&ff)?2:1,A); vf::guard("fine_grained_pairs"); } g_fine=1;
	vf::guard("scheduling_points_inside_reader_sections",n_fine_reader); vf::guard("scheduling_points_at_atomic_operations",n_fine_atomic);
	vf::guard("executions",n_exec); vf::guard("histories_with_overlapping_operations",n_overlap_hist); vf::guard("schedules_with_two_readers_inside",sched::G.readers_overlap); vf::guard("schedules_with_writer_waiting_for_reader",sched::G.writer_waited); }
#else
// ---- free-running ThreadSanitizer pass of the same programs (no scheduler; happens-before analysis) ----------------
static void tsan_pass(){ std::vector<Op> A=alphabet(); std::vector<Init> I=inits(); int NA=A.size(); unsigned seed=vf::C().seed*2654435761u+12345; uint64_t runs=0; for(size_t ii=0;ii<I.size();ii++) for(int a=0;a<NA;a++) for(int b=0;b<NA;b++) for(int rep=0;rep<(vf::thorough()?12:3);rep++){ Exec x; x.cache=cppcms::impl::thread_cache_factory(I[ii].limit); for(size_t i=0;i<I[ii].ops.size();i++){ int sid; do_op(x,I[ii].ops[i],sid); } std::atomic<int> go(0); int c=(a+b+rep)%NA; auto body=[&](int o1,int o2,int skew){ while(!go.load()) ; for(volatile int k=0;k<skew;k++); int sid; do_op(x,A[o1],sid); do_op(x,A[o2],sid); }; seed=seed*1103515245+12345; int s1=(seed>>16)%200; seed=seed*1103515245+12345; int s2=(seed>>16)%200; std::thread t1(body,a,c,s1),t2(body,b,a,s2),t3(body,c,b,0); go=1; t1.join(); t2.join(); t3.join(); runs++; vf::eval(); }
	vf::guard("tsan_free_runs",runs); vf::outcome("tsan-pass-a"); vf::outcome("tsan-pass-b"); vf::sample("{\"pass\":\"free-running ThreadSanitizer\",\"programs\":\"3 threads x 2 operations, all (a,b) pairs x 4 initial states\",\"runs\":"+std::to_string(runs)+"}"); }
#endif

int main(int argc,char **argv){ vf::init(argc,argv,"C09","model_checking");
#ifdef C09_TSAN_PASS
	tsan_pass(); return vf::finish();
#else
	int n=16; bool th=vf::thorough();
	vf::C().rule="keys a=NUL and b=NUL NUL have equal hash values (same bucket at every table size) and a is a proper prefix of b; thread programs over {fetch(a), fetch(b), store(a,{t}), store(a,{}), store(b,{t}), rise(t), remove(a), clear, stats}: all 81 pairs of single operations under ALL schedules, triples of single operations and 2x2 programs over a 6-operation subset under every schedule with <= "+std::string(th?"3":"2")+" preemptions, x initial states {empty, {a}, {a,b} at limit 2, {a} at limit 1}; scheduling points = every pthread rwlock / mutex operation of the cache and every std::atomic member call of the cache code (src/cache_storage.cpp is compiled into the harness with -finstrument-functions); fine-grained pass: all pairs again with a scheduling point at EVERY function entry of the cache code while the thread is inside a reader section, <= 1 preemption (thorough 2 for fetch||fetch). Oracle: brute-force linearizability of the recorded history w.r.t. the set-valued cache model + final audit; deadlock detection. states = distinct observed outcome vectors, transitions = scheduling decisions, traces = executions of the real code. Data races: separate free-running ThreadSanitizer pass";
	vf::assume("atomicity and ordering are decided at lock granularity, plus std::atomic member calls, plus (fine-grained pass) function-entry granularity inside reader sections; weak-memory effects and compiler builtins (__atomic_*/__sync_*) used without a function call are not scheduling points"); vf::assume("the data-race clause is decided by ThreadSanitizer on free-running executions of the same programs (happens-before analysis of the schedules that occurred, not enumeration)");
	if(!vf::C().replay_file.empty()) printf("replay: the replay file names the program and the schedule (choice vector); re-running the quick tier reproduces it\n");
	vf::parallel(n,n,[&](int sh){ shard(sh,n); },th?1700:280);
	// race pass: the tsan-flavour binary of this harness, exit code 66 = ThreadSanitizer reported a race
	{ std::string cmd=std::string("timeout -k 5 ")+(vf::thorough()?"1500 ":"400 ")+vf::verif_dir()+"/build/bin/C09.tsan --tier "+vf::C().tier+" --pass tsan --result '"+vf::scratch_dir()+"/tsan.res' 2>'"+vf::scratch_dir()+"/tsan.err'"; int st=system(cmd.c_str()); FILE *f=fopen((vf::scratch_dir()+"/tsan.res").c_str(),"rb"); bool merged=f&&vf::merge_ctx(f); if(f) fclose(f); std::string err; { std::ifstream e(vf::scratch_dir()+"/tsan.err"); std::stringstream ss; ss<<e.rdbuf(); err=ss.str(); }
	  if(WIFEXITED(st)&&(WEXITSTATUS(st)==124||WEXITSTATUS(st)==137)){ vf::violation("free-running-pass-hang","the free-running ThreadSanitizer pass did not terminate within its time limit (livelock, deadlock or a corrupted structure): "+err.substr(0,300),"\"report\":"+vf::jstr(err.substr(0,1500))); }
	  else if(err.find("ThreadSanitizer: data race")!=std::string::npos||(WIFEXITED(st)&&WEXITSTATUS(st)==66)){ size_t p=err.find("WARNING: ThreadSanitizer"); std::string rep= p==std::string::npos?err.substr(0,1500):err.substr(p,1500); std::string fn; size_t q=rep.find("#0 "); if(q!=std::string::npos){ size_t e2=rep.find('\n',q); fn=rep.substr(q,e2-q); } vf::violation("data-race","ThreadSanitizer reports a data race in the free-running pass: "+fn,"\"report\":"+vf::jstr(rep)); } else if(!merged||st!=0){ fprintf(stderr,"harness error: tsan pass failed (status %d): %s\n",st,err.substr(0,500).c_str()); vf::C().harness_error=true; } }
	vf::require_guard("pairs_all_schedules"); vf::require_guard("fine_grained_pairs"); vf::require_guard("scheduling_points_inside_reader_sections"); vf::require_guard("triples"); vf::require_guard("two_by_two"); vf::require_guard("histories_with_overlapping_operations"); vf::require_guard("schedules_with_two_readers_inside"); vf::require_guard("schedules_with_writer_waiting_for_reader"); vf::require_guard("tsan_free_runs"); vf::require_guard("programs_with_several_outcomes");
	return vf::finish();
#endif
}
