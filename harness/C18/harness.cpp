// C18 - a crash while saving a file-backed session never yields a corrupted session.
// Crash-state enumeration: the last save of a 1..3-save history runs on the real session_file_storage with write()
// interposed and logged; every process-crash state (every prefix of the write-call sequence, every byte prefix of the
// in-flight call) and every machine-crash state (every combination of 512-byte sectors holding old / intermediate /
// new content, every admissible file length) is materialised on top of the file left by the earlier saves, and
// recovered by a FRESH storage object through three recovery scripts under clocks before/at/after the deadlines.
#include "vf.h"
#include "session_posix_file_storage.h"
#include <sys/syscall.h>
#include <dirent.h>
#include <fcntl.h>
#include <stdarg.h>
#include <memory>
#include "coop_sched.h"

static time_t T0=1000000; /* base of the virtual clock; the epoch2039 sub-pass sets it beyond 2^31 */ static time_t g_now=1000000; extern "C" time_t time(time_t *t){ if(t) *t=g_now; return g_now; }
struct W { std::string bytes; long off; }; static bool g_log=false; static std::vector<W> g_writes; static int g_fail_after=-1;
extern "C" ssize_t write(int fd,const void *buf,size_t n){ if(g_log&&fd>2){ W w; w.bytes.assign((const char*)buf,n); w.off=syscall(SYS_lseek,fd,0L,SEEK_CUR); g_writes.push_back(w); } if(fd>2) sched::yield_point(); return syscall(SYS_write,fd,buf,n); }
// scheduling points of the concurrent pass: the file system calls of the storage (no-ops outside an exploration)
extern "C" int open(const char *p,int fl,...){ mode_t m=0; if(fl&O_CREAT){ va_list ap; va_start(ap,fl); m=va_arg(ap,int); va_end(ap); } sched::yield_point(); return syscall(SYS_openat,AT_FDCWD,p,fl,m); }
extern "C" int open64(const char *p,int fl,...){ mode_t m=0; if(fl&O_CREAT){ va_list ap; va_start(ap,fl); m=va_arg(ap,int); va_end(ap); } sched::yield_point(); return syscall(SYS_openat,AT_FDCWD,p,fl,m); }
extern "C" int unlink(const char *p){ sched::yield_point(); return syscall(SYS_unlink,p); }
extern "C" ssize_t read(int fd,void *b,size_t n){ if(fd>2) sched::yield_point(); return syscall(SYS_read,fd,b,n); }

using cppcms::sessions::session_file_storage;
static const char *SID="0123456789abcdef0123456789abcdef";
static std::string g_dir;
static std::string fname(){ return g_dir+"/"+SID; }
static bool read_file(std::string &out){ FILE *f=fopen(fname().c_str(),"rb"); if(!f) return false; out.clear(); char b[4096]; size_t r; while((r=fread(b,1,sizeof b,f))>0) out.append(b,r); fclose(f); return true; }
static void put_file(bool present,const std::string &bytes){ unlink(fname().c_str()); if(!present) return; FILE *f=fopen(fname().c_str(),"wb"); fwrite(bytes.data(),1,bytes.size(),f); fclose(f); }
static bool exists(){ return access(fname().c_str(),F_OK)==0; }

struct Save { time_t deadline; std::string data; };
static void apply_w(std::string &f,const W &w,size_t k){ if(k==0) return; if(f.size()<(size_t)w.off+k) f.resize(w.off+k,0); memcpy(&f[w.off],w.bytes.data(),k); }
static std::string payload(int kind,int variant){ size_t lens[]={0,1,16,495,496,497,1100}; if(kind<7){ std::string s(lens[kind],0); for(size_t i=0;i<s.size();i++) s[i]=(char)('A'+variant*7+(i*31+kind)%53); return s; }
	if(kind==7){ std::string s(700,'p'); s[690]=(char)('0'+variant); return s; } // long common prefix, differ in the last sector
	if(kind==8){ std::string s(520,'q'); s[3]=(char)('0'+variant); return s; } // differ in sector 0 only
	if(kind==9){ std::string s(600,'r'); return s; } // kind 9: identical data (only the deadline differs)
	// values longer than 4096 bytes (the checksum helper and the read loop work in blocks): versions differ in two places beyond byte 4096, in different sectors
	if(kind==10){ std::string s(5000,'t'); s[4150]=(char)('0'+variant); s[4700]=(char)('0'+variant); return s; }
	if(kind==11){ std::string s(9000,'u'); s[4097]=(char)('0'+variant); s[8990]=(char)('0'+variant); return s; }
	{ std::string s(4500,0); for(size_t i=0;i<s.size();i++) s[i]=(char)('a'+variant*5+(i*13)%23); return s; } } // kind 12: differs everywhere
static void bad(const std::string &sig,const std::string &what,const std::string &cs){ vf::violation(sig,what+" ["+cs+"]","\"op\":"+vf::jstr(sig)+",\"case\":"+vf::jstr(cs)); }

// one recovery of one crash state. saves = every save of the history (incl. the in-flight one).
static uint64_t n_states=0;
static void recover(bool present,const std::string &bytes,const std::vector<Save> &saves,const std::string &cs,bool flock){ n_states++;
	time_t clocks[8]; int nc=0; clocks[nc++]=T0; for(size_t i=0;i<saves.size();i++){ time_t d=saves[i].deadline; bool dup=false; for(int q=0;q<nc;q++) if(clocks[q]==d+1) dup=true; if(!dup&&nc<7){ clocks[nc++]=d+1; } } { bool dup=false; time_t d=saves.back().deadline; for(int q=0;q<nc;q++) if(clocks[q]==d) dup=true; if(!dup) clocks[nc++]=d; }
	for(int ci=0;ci<nc;ci++){ int verdict_a=-1; std::string data_a; time_t dl_a=0;
		for(int script=0;script<3;script++){ vf::eval(); g_now=clocks[ci]; put_file(present,bytes); std::string pre=cs+" clock="+std::to_string((long)(g_now-T0))+" script="+std::to_string(script);
			session_file_storage st(g_dir,1,flock?2:1,flock); // a fresh storage object = the process after restart
			int64_t stamp=0; bool stamp_ok= present&&bytes.size()>=8; if(stamp_ok) memcpy(&stamp,bytes.data(),8); bool gc_should_keep= stamp_ok&&stamp>=g_now; bool boundary= stamp_ok&&stamp==g_now;
			if(script==1){ st.gc(); if(present){ bool ex=exists(); if(ex!=gc_should_keep&&!boundary) bad(ex?"gc:kept-dead-file":"gc:removed-live-file","gc "+std::string(ex?"kept a file whose time stamp is unreadable or past":"removed a file whose time stamp is in the future"),pre); } }
			time_t dl=0; std::string out="UNTOUCHED"; bool ok=false; try{ ok=st.load(SID,dl,out); }catch(std::bad_alloc const &){ vf::guard("bad_alloc_on_absurd_size"); continue; }catch(std::exception const &e){ bad("load:throws","load throws "+std::string(e.what()),pre); continue; }
			if(ok){ bool match=false; for(size_t i=0;i<saves.size();i++) if(saves[i].deadline==dl&&saves[i].data==out) match=true; if(!match){ bool data_known=false,dl_known=false; for(size_t i=0;i<saves.size();i++){ if(saves[i].data==out) data_known=true; if(saves[i].deadline==dl) dl_known=true; }
					if(data_known&&dl_known) vf::guard("info_data_and_deadline_from_different_saves"); else bad(std::string("load:")+(data_known?"foreign-deadline":"corrupted-data"),"load returned "+std::string(data_known?"a deadline that no save of the history wrote":"data that no save of the history wrote")+": deadline "+std::to_string((long)(dl-T0))+", "+std::to_string(out.size())+" bytes",pre); }
				if(dl<g_now) bad("load:expired","load returned a session whose deadline is in the past",pre); if(!exists()) bad("load:removed-live","load succeeded but removed the file",pre); vf::guard("recovered_complete_value"); }
			else { if(exists()) bad("load:kept-unreadable","load reported no session but left the file in place",pre); vf::guard("recovered_nothing"); }
			if(script==0){ verdict_a=ok; data_a=out; dl_a=dl; }
			else if(script==1){ if(!boundary&&((int)ok!=verdict_a||(ok&&(out!=data_a||dl!=dl_a)))) bad("gc:changes-outcome","gc before load changes what load returns (gc removed a live session or resurrected a dead one)",pre); }
			if(script==2){ st.gc(); time_t dl2=0; std::string o2; bool ok2=st.load(SID,dl2,o2); if(ok2!=ok||(ok&&(o2!=out||dl2!=dl))) { if(!boundary) bad("gc:after-load","load / gc / load: the second load differs from the first",pre); } }
			{ static uint64_t sc=0; if(vf::sample_tick(sc,30011)) vf::sample("{\"crash_state\":"+vf::jstr(pre)+",\"file_bytes\":"+std::to_string(present?(long)bytes.size():-1L)+",\"load\":"+(ok?"\"complete value of a save\"":"\"no session\"")+"}"); }
			vf::outcome(std::string(ok?"T":"F")+std::to_string(out.size())+":"+std::to_string((long)(dl-T0))+":"+std::to_string(script)); } }
}

// enumerate crash states of the last save on top of `old`
static void crash_states(bool old_present,const std::string &old,const std::vector<W> &w,const std::vector<Save> &saves,const std::string &cs,bool flock){
	// (0) crash before/after O_CREAT: old file untouched, or (if absent) an empty file
	recover(old_present,old,saves,cs+" crash=before-first-write",flock); if(!old_present) recover(true,"",saves,cs+" crash=after-create",flock);
	// (i) process crash: every prefix of the call sequence + every byte prefix of the in-flight call
	std::string cur=old; for(size_t c=0;c<w.size();c++){ const std::string &b=w[c].bytes; size_t step= b.size()>600? 37:1; if(b.size()==16) step=16; /* the 16-byte header write is atomic in the stated fault model */
		for(size_t k=0;;){ std::string f=cur; apply_w(f,w[c],k); recover(true,f,saves,cs+" crash=process call#"+std::to_string(c+1)+" bytes="+std::to_string(k),flock); vf::guard("process_crash_states"); if(k==b.size()) break; k=std::min(b.size(),k+step); }
		apply_w(cur,w[c],b.size()); }
	// (ii) machine crash: sector states. versions of the file: V0=old, V1=after call 1, V2=after call 2 (if any)
	std::vector<std::string> V; V.push_back(old); { std::string f=old; for(size_t c=0;c<w.size();c++){ apply_w(f,w[c],w[c].bytes.size()); V.push_back(f); } }
	size_t maxlen=0; std::set<size_t> lens; for(size_t i=0;i<V.size();i++){ lens.insert(V[i].size()); maxlen=std::max(maxlen,V[i].size()); } size_t nsec=(maxlen+511)/512; if(nsec==0) return;
	// every sector independently holds the content it had in any version (no fsync orders the write-back); identical contents are merged
	std::vector<std::vector<int> > opts(nsec); for(size_t q=0;q<nsec;q++){ std::vector<std::string> seen; for(size_t v=0;v<V.size();v++){ std::string sec= q*512<V[v].size()? V[v].substr(q*512,512):std::string(); sec.resize(512,0); if(std::find(seen.begin(),seen.end(),sec)==seen.end()){ seen.push_back(sec); opts[q].push_back(v); } } }
	std::vector<int> choice(nsec,0); std::function<void(size_t)> rec=[&](size_t sct){ if(sct==nsec){ for(std::set<size_t>::iterator L=lens.begin();L!=lens.end();++L){ std::string f(*L,0); for(size_t q=0;q<nsec;q++){ const std::string &src=V[choice[q]]; size_t b=q*512; if(b>=f.size()) break; size_t e=std::min(f.size(),b+512); for(size_t x=b;x<e;x++) f[x]= x<src.size()?src[x]:0; }
				std::string ch; for(size_t q=0;q<nsec;q++) ch+=std::to_string(choice[q]); recover(true,f,saves,cs+" crash=machine sectors="+ch+" len="+std::to_string(*L),flock); vf::guard("machine_crash_states"); } return; }
		for(size_t o=0;o<opts[sct].size();o++){ choice[sct]=opts[sct][o]; rec(sct+1); } }; rec(0);
}

static void histories(int sh,int n,bool flock){ bool th=vf::thorough(); int kinds[]={0,1,2,3,4,5,6,7,8,9,10,11,12}; int nk=13; time_t dls[]={T0-5,T0+10,T0+20}; int idx=0;
	// history = [older (optional)] old (optional) -> new ; payload kinds x variants; deadlines
	for(int hlen=1;hlen<=3;hlen++) for(int ko=0;ko<nk;ko++) for(int kn=0;kn<nk;kn++){ if(hlen==1&&ko!=0) continue; if(hlen==3&&!th&&(ko%3||kn%3)) continue; if(ko>=10||kn>=10){ /* big values: overwrite histories only, a fixed menu of pairs */ if(hlen!=2) continue; bool pair=(ko==kn)||(ko==10&&kn==12)||(ko==12&&kn==10)||(ko==3&&kn==10)||(ko==10&&kn==3)||(ko==11&&kn==10); if(!pair) continue; } for(int dn=0;dn<3;dn++) for(int dold=1;dold<3;dold++){ if(hlen==1&&dold!=1) continue; if((ko>=10||kn>=10)&&(dn!=2||dold!=1)) continue; if(!th&&hlen>1&&dn==0&&dold==2) continue;
		if((idx++%n)!=sh) continue; std::vector<Save> saves; g_now=T0;
		if(hlen==3){ Save s; s.deadline=T0+15; s.data=payload((ko+3)%10,2); saves.push_back(s); } if(hlen>=2){ Save s; s.deadline=dls[dold]; s.data=payload(kinds[ko],0); saves.push_back(s); }
		{ Save s; s.deadline=dls[dn]+ (hlen>=2&&dls[dn]==dls[dold]? 1:0); s.data=payload(kinds[kn],1); if(kinds[kn]==9&&hlen>=2&&kinds[ko]==9) s.data=saves.back().data; if(kinds[kn]>=10) vf::guard("histories_with_values_over_4096_bytes"); saves.push_back(s); }
		std::string cs="history:"; for(size_t i=0;i<saves.size();i++) cs+=" save("+std::to_string(saves[i].data.size())+"B#"+vf::hex(saves[i].data.substr(0,2))+",dl"+std::to_string((long)(saves[i].deadline-T0))+")"; if(flock) cs+=" flock"; vf::announce(cs);
		// run the earlier saves for real, then the last one with the write log
		unlink(fname().c_str()); { session_file_storage st(g_dir,1,flock?2:1,flock); for(size_t i=0;i+1<saves.size();i++) st.save(SID,saves[i].deadline,saves[i].data); }
		std::string old; bool old_present=read_file(old); g_writes.clear(); { session_file_storage st(g_dir,1,flock?2:1,flock); g_log=true; st.save(SID,saves.back().deadline,saves.back().data); g_log=false; }
		std::vector<W> w=g_writes; { std::string fin; read_file(fin); std::string exp=old; for(size_t c=0;c<w.size();c++) apply_w(exp,w[c],w[c].bytes.size()); if(fin!=exp){ fprintf(stderr,"harness error: write log does not reproduce the file (%zu vs %zu bytes)\n",fin.size(),exp.size()); vf::C().harness_error=true; return; } }
		if(w.empty()||w[0].bytes.size()!=16||w[0].off!=0) vf::guard("info_header_not_first_write"); else vf::guard("header_first_write"); vf::guard("saves_logged");
		// sanity: the completed save loads back
		{ session_file_storage st(g_dir,1,1,false); time_t dl; std::string out; g_now=T0; bool ok=st.load(SID,dl,out); bool want=saves.back().deadline>=g_now; if(ok!=want||(ok&&(out!=saves.back().data||dl!=saves.back().deadline))) bad("save-load","a completed save does not load back",cs); }
		crash_states(old_present,old,w,saves,cs,flock); } }
}
static void garbage(int sh,int n){ // well-formed names, arbitrary contents
	std::vector<Save> none; Save s; s.deadline=T0+50; s.data=payload(3,0); none.push_back(s); g_now=T0; unlink(fname().c_str()); { session_file_storage st(g_dir,1,1,false); st.save(SID,s.deadline,s.data); } std::string good; read_file(good); int idx=0;
	for(size_t len=0;len<=20;len++){ if((idx++%n)!=sh) continue; recover(true,good.substr(0,len),none,"garbage short-file len="+std::to_string(len),false); std::string z(len,'\xff'); recover(true,z,none,"garbage ff-file len="+std::to_string(len),false); vf::guard("garbage_files"); }
	uint32_t real_size; memcpy(&real_size,&good[12],4); uint32_t sizes[]={0,real_size-1,real_size+1,real_size+20,65536}; for(int i=0;i<5;i++){ if((idx++%n)!=sh) continue; std::string f=good; memcpy(&f[12],&sizes[i],4); recover(true,f,none,"garbage size-field="+std::to_string(sizes[i]),false); }
	for(int d=-1;d<=1;d+=2){ if((idx++%n)!=sh) continue; std::string f=good; uint32_t crc; memcpy(&crc,&f[8],4); crc+=d; memcpy(&f[8],&crc,4); recover(true,f,none,"garbage crc"+std::to_string(d),false); }
	{ int64_t dl[]={0,T0-1,(int64_t)1<<62,-1}; for(int i=0;i<4;i++){ if((idx++%n)!=sh) continue; std::string f=good; memcpy(&f[0],&dl[i],8); std::vector<Save> sv=none; Save t=s; t.deadline=(time_t)dl[i]; sv.push_back(t); recover(true,f,sv,"garbage deadline-field#"+std::to_string(i),false); } }
	for(size_t pos=16;pos<good.size();pos+=61){ if((idx++%n)!=sh) continue; std::string f=good; f[pos]^=1; recover(true,f,none,"garbage bitflip@"+std::to_string(pos),false); }
	if(sh==0&&vf::thorough()){ uint32_t huge[]={0x7fffffffu,0xffffffffu}; for(int i=0;i<2;i++){ std::string f=good; memcpy(&f[12],&huge[i],4); recover(true,f,none,"garbage size-field="+std::to_string(huge[i]),false); } }
}

// ---- concurrent pass: threads of one process saving / loading / removing / collecting ONE sid (mutex mode) ------------------
// Stateless model checking under engine/coop_sched.h: scheduling points are every pthread mutex operation and every open /
// read / write / unlink of the storage. Every schedule up to the preemption bound; the recorded history plus a final load
// must be explained by SOME sequential order (consistent with real time) of a plain reference: the file is absent or holds
// one (deadline, value); gc removes what has no valid time stamp; load removes what it cannot return. In particular a save
// that returned is never lost to a concurrent gc/load ("never removes a live session").
struct COp { int kind; int v; }; // kind 0 save 1 load 2 remove 3 gc; v: save variant
struct CFile { bool present,ts_valid,loadable; time_t d; std::string data; CFile():present(false),ts_valid(false),loadable(false),d(0){} };
struct CEv { int thread; COp op; long inv,res; bool hit; time_t d; std::string data; };
static std::string cop_str(const COp &o){ const char *sv[]={"save(now+100,'A')","save(now+200,'BBBBBBBBBBBBBBBBBBBBBBBBBBBBBBBBBBBBBBBB')","save(now-10,'P')"}; return o.kind==0?sv[o.v]: o.kind==1?"load": o.kind==2?"remove":"gc"; }
static void csave_args(int v,time_t &d,std::string &data){ if(v==0){ d=g_now+100; data="A"; } else if(v==1){ d=g_now+200; data=std::string(40,'B'); } else { d=g_now-10; data="P"; } }
// the sequential reference; returns false if the observed result is impossible in state f
static bool cstep(CFile &f,const CEv &e){ switch(e.op.kind){ case 0:{ f.present=true; f.loadable=true; csave_args(e.op.v,f.d,f.data); f.ts_valid= f.d>=g_now; return true; }
	case 1:{ bool hit= f.present&&f.ts_valid&&f.loadable; if(hit!=e.hit) return false; if(hit){ return e.d==f.d&&e.data==f.data; } f.present=false; return true; }
	case 2: f.present=false; return true; default: if(f.present&&!f.ts_valid) f.present=false; return true; } }
static bool clin(const CFile &f0,const std::vector<CEv> &H,std::vector<bool> &used,size_t done,const CEv &audit){ if(done==H.size()){ CFile f=f0; return cstep(f,audit); }
	for(size_t i=0;i<H.size();i++){ if(used[i]) continue; bool ok=true; for(size_t j=0;j<H.size();j++) if(!used[j]&&j!=i&&H[j].res<H[i].inv){ ok=false; break; } if(!ok) continue; CFile f=f0; if(!cstep(f,H[i])) continue; used[i]=true; if(clin(f,H,used,done+1,audit)) return true; used[i]=false; } return false; }
struct CInit { std::string label; CFile f; std::string bytes; };
static std::string file_image(time_t d,const std::string &data,bool bad_crc){ put_file(false,""); { session_file_storage st(g_dir,4,1,false); st.save(SID,d,data); } std::string b; read_file(b); if(bad_crc&&!b.empty()) b[b.size()-1]^=1; put_file(false,""); return b; }
static std::vector<CInit> cinits(){ std::vector<CInit> v; { CInit i; i.label="absent"; i.f.present=false; v.push_back(i); } { CInit i; i.label="live older value"; i.f.present=true; i.f.ts_valid=true; i.f.loadable=true; i.f.d=g_now+50; i.f.data=std::string(70,'o'); i.bytes=file_image(i.f.d,i.f.data,false); v.push_back(i); }
	{ CInit i; i.label="complete file past its deadline"; i.f.present=true; i.f.ts_valid=false; i.f.loadable=true; i.f.d=g_now-20; i.f.data="exp"; i.bytes=file_image(i.f.d,i.f.data,false); v.push_back(i); } { CInit i; i.label="empty file (crash right after creation)"; i.f.present=true; i.f.ts_valid=false; i.f.loadable=false; v.push_back(i); }
	{ CInit i; i.label="torn file: future time stamp, data not matching the checksum"; i.f.present=true; i.f.ts_valid=true; i.f.loadable=false; i.bytes=file_image(g_now+50,"torn",true); v.push_back(i); } return v; }
struct CExec { std::unique_ptr<session_file_storage> st; std::vector<CEv> hist; long clock; CExec():clock(0){} };
static uint64_t n_cexec=0,n_coverlap=0;
static void cdo(CExec &x,CEv &e){ e.inv=++x.clock; e.hit=false; e.d=0; try{ if(e.op.kind==0){ time_t d; std::string data; csave_args(e.op.v,d,data); x.st->save(SID,d,data); } else if(e.op.kind==1){ e.hit=x.st->load(SID,e.d,e.data); } else if(e.op.kind==2) x.st->remove(SID); else x.st->gc(); }catch(std::exception const &ex){ e.data=std::string("EXC ")+ex.what(); e.hit=true; e.d=-7; } e.res=++x.clock; }
static void concurrent_program(const CInit &in,const std::vector<std::vector<COp> > &progs,int bound){ std::string cs="initial file: "+in.label+";"; for(size_t t=0;t<progs.size();t++){ cs+=" T"+std::to_string(t)+"["; for(size_t i=0;i<progs[t].size();i++) cs+=(i?"; ":"")+cop_str(progs[t][i]); cs+="]"; } vf::announce(cs); std::shared_ptr<CExec> cur; std::set<std::string> outcomes;
	auto factory=[&]()->std::vector<std::function<void()> >{ put_file(in.f.present,in.bytes); cur.reset(new CExec()); cur->st.reset(new session_file_storage(g_dir,4,1,false)); std::vector<std::function<void()> > b; std::shared_ptr<CExec> x=cur; for(size_t t=0;t<progs.size();t++){ std::vector<COp> pr=progs[t]; b.push_back([x,pr,t](){ for(size_t i=0;i<pr.size();i++){ CEv e; e.thread=t; e.op=pr[i]; cdo(*x,e); x->hist.push_back(e); } }); } return b; };
	auto after=[&](const sched::Result &r){ n_cexec++; vf::eval(); vf::C().traces++; vf::C().transitions+=r.points.size(); if(r.deadlock){ vf::violation("concurrent:deadlock","a schedule of concurrent session file operations deadlocks ["+cs+" schedule="+r.choices+"]","\"case\":"+vf::jstr(cs)+",\"schedule\":"+vf::jstr(r.choices)); return; }
		CExec &x=*cur; CEv audit; audit.op.kind=1; audit.op.v=0; cdo(x,audit); std::vector<CEv> H=x.hist; bool overlap=false; for(size_t i=0;i<H.size();i++) for(size_t j=0;j<H.size();j++) if(i!=j&&H[i].inv<H[j].res&&H[j].inv<H[i].res) overlap=true; if(overlap) n_coverlap++;
		auto ev_str=[&](const CEv &e){ return "T"+std::to_string(e.thread)+":"+cop_str(e.op)+"@["+std::to_string(e.inv)+","+std::to_string(e.res)+"]"+(e.op.kind==1?(e.hit?"->("+std::to_string((long long)(e.d-g_now))+","+vf::vis(e.data.substr(0,12))+")":"->none"):std::string()); };
		std::vector<bool> used(H.size(),false); if(!clin(in.f,H,used,0,audit)){ std::string hs; for(size_t i=0;i<H.size();i++) hs+=ev_str(H[i])+"; "; bool lost=!audit.hit; vf::violation(std::string("concurrent:")+(lost?"live-session-lost":"wrong-session-content"),"no sequential order of the operations explains the history "+hs+"final load"+(audit.hit?" returns ("+std::to_string((long long)(audit.d-g_now))+","+vf::vis(audit.data.substr(0,12))+")":" finds no session")+" ["+cs+" schedule="+r.choices+"]","\"case\":"+vf::jstr(cs)+",\"schedule\":"+vf::jstr(r.choices)); }
		std::string oc; for(size_t i=0;i<H.size();i++) oc+=ev_str(H[i]).substr(ev_str(H[i]).find(']')+1)+"|"; oc+=audit.hit?audit.data.substr(0,3):"none"; outcomes.insert(oc); vf::outcome(cs+oc); { static uint64_t sc=0; if(vf::sample_tick(sc,1501)) vf::sample("{\"program\":"+vf::jstr(cs)+",\"schedule\":"+vf::jstr(r.choices)+",\"scheduling_points\":"+std::to_string(r.points.size())+",\"final_load\":"+vf::jstr(audit.hit?"session":"none")+"}"); } };
	bool complete=true; sched::explore(bound,factory,after,&complete,[](){ return vf::deadline_reached()||vf::nviol()>20; }); if(!complete) vf::C().exhaustive=false; vf::C().states+=outcomes.size(); if(outcomes.size()>1) vf::guard("concurrent_programs_with_several_outcomes"); }
static void concurrent_pass(int sh,int n){ bool th=vf::thorough(); std::vector<CInit> I=cinits(); COp A[]={{0,0},{0,1},{0,2},{1,0},{2,0},{3,0}}; int NA=6; uint64_t idx=0;
	for(size_t ii=0;ii<I.size();ii++) for(int a=0;a<NA;a++) for(int b=a;b<NA;b++){ if((idx++%n)!=(uint64_t)sh) continue; std::vector<std::vector<COp> > p(2); p[0].push_back(A[a]); p[1].push_back(A[b]); concurrent_program(I[ii],p,th?4:3); vf::guard("concurrent_pairs"); }
	// three threads, and a thread that saves and then loads its own session
	for(size_t ii=0;ii<I.size();ii++) for(int a=0;a<NA;a++) for(int b=a;b<NA;b++) for(int c=b;c<NA;c++){ if((idx++%n)!=(uint64_t)sh) continue; if(a>2) continue; /* at least one save */ if(!th&&(a+b+c+ii)%2) continue; std::vector<std::vector<COp> > p(3); p[0].push_back(A[a]); p[1].push_back(A[b]); p[2].push_back(A[c]); concurrent_program(I[ii],p,2); vf::guard("concurrent_triples"); }
	for(size_t ii=0;ii<I.size();ii++) for(int a=0;a<2;a++) for(int b=0;b<NA;b++){ if((idx++%n)!=(uint64_t)sh) continue; std::vector<std::vector<COp> > p(2); p[0].push_back(A[a]); p[0].push_back(A[3]); p[1].push_back(A[b]); concurrent_program(I[ii],p,th?3:2); vf::guard("concurrent_save_then_load"); }
	vf::guard("concurrent_executions",n_cexec); vf::guard("concurrent_histories_with_overlapping_operations",n_coverlap); }

int main(int argc,char **argv){ vf::init(argc,argv,"C18","fault_enumeration"); int n=16;
	vf::C().rule="histories of 1..3 saves on one sid over 13 payload kinds (0,1,16,495,496,497,1100 bytes; 4500/5000/9000-byte values whose versions differ only in two places beyond byte 4096, overwritten in 9 old->new pairs; pairs differing only in the last sector / only in sector 0 / only in the deadline) x deadlines {past, future, later}; for the last save: every prefix of the write() call sequence and every byte prefix of the in-flight data call (process crash; the 16-byte header write is atomic), every assignment of {old, after-header, final} to sector 0 and {old, final} to each later 512-byte sector x every admissible file length (machine crash, no fsync is issued), absent/empty file; each recovered by a fresh storage object with scripts {load; gc,load; load,gc,load} under clocks {before, just after each deadline, exactly at the last one}; plus garbage files (every length 0..20, perturbed size/crc/deadline fields, bit flips). distinct = (load verdict, length, deadline, script); non-trivial = all";
	vf::assume("the 16-byte header lies in sector 0 and a sector is written atomically; unwritten tail bytes read as zeros"); vf::assume("CRC-32 cannot prove absence of old/new mixtures for arbitrary payloads: the claim is for the enumerated payload pairs, each mixture actually constructed and loaded"); vf::assume("a sub-pass repeats a quarter of the histories with the clock in 2039 (time_t beyond 2^31)"); vf::assume("at now == deadline either verdict is accepted; concurrency: threads of one process on one storage object in mutex mode (sub-pass concurrent); several processes (fcntl mode) are not covered"); vf::assume("sub-pass concurrent: 2 threads x 1 operation from {save A, save B (longer), save with a past deadline, load, remove, gc} (<= 3 preemptions, thorough 4), 3 threads x 1 operation (<= 2), save-then-load against one operation (<= 2, thorough 3), over 5 earlier file states {absent, live, past its deadline, empty, torn}; scheduling points = pthread mutex operations and open/read/write/unlink; every history + final load must be linearizable w.r.t. a one-cell reference");
	if(!vf::C().replay_file.empty()) printf("replay: C18 cases are deterministic; re-running the quick tier reproduces the case named in the replay file\n");
	if(vf::C().pass=="epoch2039"){ // the histories again (every 4th) with the clock beyond 2^31 seconds (year 2039): the deadline is stored in the file header
		T0=(time_t)2200000000LL; g_now=T0; vf::parallel(n,n,[&](int sh){ g_dir=vf::scratch_dir()+"/sess39_"+std::to_string(sh); mkdir(g_dir.c_str(),0777); histories(sh*4+1,n*4,false); vf::guard("epoch2039_crash_states",n_states); std::string cmd="rm -rf '"+g_dir+"'"; if(system(cmd.c_str())){} },600); return vf::finish(); }
	if(vf::C().pass=="concurrent"){ vf::parallel(n,n,[&](int sh){ g_dir=vf::scratch_dir()+"/sessc_"+std::to_string(sh); mkdir(g_dir.c_str(),0777); concurrent_pass(sh,n); std::string cmd="rm -rf '"+g_dir+"'"; if(system(cmd.c_str())){} },vf::thorough()?900:200); return vf::finish(); }
	vf::parallel(n,n,[&](int sh){ g_dir=vf::scratch_dir()+"/sess"+std::to_string(sh); mkdir(g_dir.c_str(),0777); histories(sh,n,false); if(vf::thorough()) histories(sh,n,true); garbage(sh,n); vf::guard("crash_states",n_states); std::string cmd="rm -rf '"+g_dir+"'"; if(system(cmd.c_str())){} },vf::thorough()?1500:250);
	vf::run_sub("asan","epoch2039"); vf::run_sub("asan","concurrent");
	vf::require_guard("concurrent_executions"); vf::require_guard("concurrent_histories_with_overlapping_operations"); vf::require_guard("concurrent_programs_with_several_outcomes"); vf::require_guard("process_crash_states"); vf::require_guard("epoch2039_crash_states"); vf::require_guard("machine_crash_states"); vf::require_guard("recovered_complete_value"); vf::require_guard("recovered_nothing"); vf::require_guard("saves_logged"); vf::require_guard("garbage_files"); vf::require_guard("histories_with_values_over_4096_bytes");
	return vf::finish(); }
