// C01 - every front-end delivers the request the peer sent, however it is segmented.
// A real cppcms::service (HTTP / SCGI / FastCGI) runs in-process; the server side's readv() is interposed and the
// explorer enumerates how many bytes each read returns (every split position for short streams, a boundary menu for
// long ones, would-block), FastCGI record cuts and padding, header folding, keep-alive pipelines. Oracle: what the
// echo application observed must equal a reference CGI mapping of the abstract request - hence identical across
// protocols, sync/async applications and segmentations.
#include "echo_app.h"

using namespace wire;
struct AReq { std::string label; Req r; std::vector<std::pair<std::string,std::string> > get,post,cookies; bool expect_raw; };
static std::string urlenc_path(const std::string &p,bool escape_more){ std::string r; for(size_t i=0;i<p.size();i++){ unsigned char c=p[i]; if(isalnum(c)||c=='/'||c=='-'||c=='_'||c=='.'||c=='~'||(!escape_more&&(c==':'||c=='@'||c=='!'||c=='$'||c=='\''||c=='('||c==')'||c=='*'||c==','||c==';'||c=='='))) r+=(char)c; else { char b[4]; snprintf(b,4,"%%%02X",c); r+=b; } } return r; }
static std::vector<AReq> requests(){ std::vector<AReq> v; auto base=[&](const std::string &label,const std::string &method,const std::string &script,const std::string &path)->AReq{ AReq a; a.label=label; a.r.method=method; a.r.script=script; a.r.path_info=path; a.r.raw_path=urlenc_path(path,false); a.r.headers.push_back(std::make_pair("Host","h.example:8080")); a.expect_raw=false; return a; };
	{ AReq a=base("get-root","GET","/echo",""); v.push_back(a); }
	{ AReq a=base("get-path","GET","/echo","/a/b.c"); v.push_back(a); }
	{ AReq a=base("get-escapes","GET","/echo","/sp ace/do.t/sl%2Fash/\xc3\xa9"); a.r.raw_path="/sp%20ace/do%2et/sl%252Fash/%C3%A9"; v.push_back(a); }
	{ AReq a=base("get-prefix-script","GET","/echo","/subx/y"); v.push_back(a); }
	{ AReq a=base("get-longer-script","GET","/echo/sub","/z"); v.push_back(a); }
	{ AReq a=base("get-query","GET","/echo","/q"); a.r.query="a=1&b=x%26y&c=&d=%20+z&a=2"; a.get.push_back(std::make_pair("a","1")); a.get.push_back(std::make_pair("b","x&y")); a.get.push_back(std::make_pair("c","")); a.get.push_back(std::make_pair("d","  z")); a.get.push_back(std::make_pair("a","2")); v.push_back(a); }
	{ AReq a=base("custom-method","PROPFIND","/echo","/m"); v.push_back(a); }
	{ AReq a=base("cookies","GET","/echo","/c"); a.r.headers.push_back(std::make_pair("Cookie","sid=abc123; theme=dark; q=\"quoted;semi colon\"; last=1")); a.cookies.push_back(std::make_pair("sid","abc123")); a.cookies.push_back(std::make_pair("theme","dark")); a.cookies.push_back(std::make_pair("q","quoted;semi colon")); a.cookies.push_back(std::make_pair("last","1")); v.push_back(a); }
	{ AReq a=base("quoted-header","GET","/echo","/h"); a.r.headers.push_back(std::make_pair("X-Quoted","say \"hi \\\" there\" end")); a.r.headers.push_back(std::make_pair("User-Agent","Mozilla/5.0 (X11; Linux (nested) x86_64) Gecko")); a.r.headers.push_back(std::make_pair("Accept-Language","en-US,en;q=0.5")); v.push_back(a); }
	{ AReq a=base("path-plus","GET","/echo","/a+b/c"); a.r.raw_path="/a+b/c"; v.push_back(a); }
	{ AReq a=base("unbalanced-paren-header","GET","/echo","/up"); a.r.headers.push_back(std::make_pair("Referer","http://x.example/wiki/Foo_(bar")); a.r.headers.push_back(std::make_pair("X-After","1")); v.push_back(a); }
	{ AReq a=base("lone-quote-header","GET","/echo","/lq"); a.r.headers.push_back(std::make_pair("X-Note","5\" disk")); a.r.headers.push_back(std::make_pair("X-After","1")); v.push_back(a); }
	{ AReq a=base("post-empty","POST","/echo","/p0"); a.r.has_body=true; a.r.content_type="application/x-www-form-urlencoded"; v.push_back(a); }
	{ AReq a=base("post-form","POST","/echo","/p1"); a.r.has_body=true; a.r.content_type="application/x-www-form-urlencoded"; a.r.body="name=J%C3%BCrgen+M&empty=&x=%26%3D&name=2"; a.post.push_back(std::make_pair("name","J\xc3\xbcrgen M")); a.post.push_back(std::make_pair("empty","")); a.post.push_back(std::make_pair("x","&=")); a.post.push_back(std::make_pair("name","2")); a.r.query="g=1"; a.get.push_back(std::make_pair("g","1")); a.expect_raw=true; v.push_back(a); }
	{ AReq a=base("post-raw-lookalike","POST","/echo","/p2"); a.r.has_body=true; a.r.content_type="application/octet-stream"; a.r.body=std::string("\r\n\r\nGET /echo/evil HTTP/1.0\r\n\r\n\0\xff\x01",33)+"tail"; a.expect_raw=true; v.push_back(a); }
	{ AReq a=base("post-json","PUT","/echo","/p3"); a.r.has_body=true; a.r.content_type="application/json; charset=utf-8"; a.r.body="{\"k\":[1,2,3]}"; a.expect_raw=true; v.push_back(a); }
	{ AReq a=base("post-1000","POST","/echo","/p4"); a.r.has_body=true; a.r.content_type="text/plain"; for(int i=0;i<1000;i++) a.r.body+=(char)('a'+(i*7)%26); a.expect_raw=true; v.push_back(a); }
	{ AReq a=base("post-20000","POST","/echo","/p5"); a.r.has_body=true; a.r.content_type="application/octet-stream"; for(int i=0;i<20000;i++) a.r.body+=(char)((i*131+i/256)&0xff); a.expect_raw=true; v.push_back(a); }
	{ AReq a=base("many-headers","GET","/echo","/mh"); for(int i=0;i<12;i++) a.r.headers.push_back(std::make_pair("X-H"+std::to_string(i),std::string(3+i*5,'v')+std::to_string(i))); v.push_back(a); }
	return v; }
static std::string expected_dump(const AReq &a){ using vf::hex; std::ostringstream o; o<<"M "<<hex(a.r.method)<<"\nS "<<hex(a.r.script)<<"\nP "<<hex(a.r.path_info)<<"\nQ "<<hex(a.r.query)<<"\nT "<<hex(a.r.content_type)<<"\nL "<<(a.r.has_body?a.r.body.size():0)<<"\n";
	std::map<std::string,std::string> env; for(size_t i=0;i<a.r.headers.size();i++) env[cgi_name(a.r.headers[i].first)]=a.r.headers[i].second; for(std::map<std::string,std::string>::iterator i=env.begin();i!=env.end();++i) o<<"E "<<i->first<<" "<<hex(i->second)<<"\n";
	{ std::vector<std::string> v; for(size_t i=0;i<a.get.size();i++) v.push_back(hex(a.get[i].first)+"="+hex(a.get[i].second)); std::sort(v.begin(),v.end()); for(size_t i=0;i<v.size();i++) o<<"G "<<v[i]<<"\n"; }
	{ std::vector<std::string> v; for(size_t i=0;i<a.post.size();i++) v.push_back(hex(a.post[i].first)+"="+hex(a.post[i].second)); std::sort(v.begin(),v.end()); for(size_t i=0;i<v.size();i++) o<<"F "<<v[i]<<"\n"; }
	{ std::vector<std::string> v; for(size_t i=0;i<a.cookies.size();i++) v.push_back(hex(a.cookies[i].first)+"="+hex(a.cookies[i].second)); std::sort(v.begin(),v.end()); for(size_t i=0;i<v.size();i++) o<<"C "<<v[i]<<"\n"; }
	o<<"R "<<hex(a.expect_raw?a.r.body:std::string())<<"\nEND\n"; return o.str(); }
static std::string first_diff(const std::string &got,const std::string &want){ std::istringstream g(got),w(want); std::string gl,wl; while(true){ bool a=(bool)std::getline(g,gl),b=(bool)std::getline(w,wl); if(!a&&!b) return "identical"; if(!a) return "missing line '"+wl.substr(0,80)+"'"; if(!b) return "extra line '"+gl.substr(0,80)+"'"; if(gl!=wl) return "got '"+gl.substr(0,90)+"' expected '"+wl.substr(0,90)+"'"; } }

static Server g_srv; static uint64_t n_runs=0;
// one run: send the encoded stream (1..k requests), read replies, compare each
static void run_case(Proto p,const std::vector<const AReq*> &reqs,const std::string &bytes,const std::string &cs,vf::Envx &e){ n_runs++; vf::eval(); g_envx=&e; bool keep=reqs.size()>1;
	std::function<bool(const std::string&)> done; if(p==FCGI) done=fcgi_complete; double t0=vf::now_s(); Exchange x=exchange(g_srv,p,bytes,false,4000,true,done); g_envx=0; if(getenv("VERIF_DEBUG_SLOW")&&vf::now_s()-t0>0.5) fprintf(stderr,"SLOW %.2fs run#%llu %s choices=%s timed_out=%d reply=%zu\n",vf::now_s()-t0,(unsigned long long)n_runs,cs.c_str(),e.str().c_str(),(int)x.timed_out,x.reply.size()); std::string how=cs+" choices="+e.str();
	if(!x.connected||!x.sent){ vf::violation("io:"+std::string(PROTO_NAME[p]),"could not connect/send",",\"case\":"+vf::jstr(how)); return; }
	if(x.timed_out){ vf::violation(std::string("no-reply:")+PROTO_NAME[p]+":"+reqs[0]->label+(e.str().find_first_not_of("0,")==std::string::npos?":default-segmentation":":segmented"),"no complete reply within 4 s (connection hangs) ["+how+"]","\"case\":"+vf::jstr(how)+",\"choices\":"+vf::jstr(e.str())); return; }
	std::vector<std::string> bodies; if(p==HTTP){ size_t pos=0; for(size_t i=0;i<reqs.size();i++){ Resp r=parse_http(x.reply,pos,x.eof); if(!r.ok){ vf::violation(std::string("bad-reply:")+PROTO_NAME[p],"reply #"+std::to_string(i+1)+" is not a well-framed HTTP response: "+r.err+" ["+how+"]","\"case\":"+vf::jstr(how)+",\"choices\":"+vf::jstr(e.str())); return; } if(r.status!=200){ vf::violation(std::string("status:")+PROTO_NAME[p],"well-formed request answered with status "+std::to_string(r.status)+" ["+how+"]","\"case\":"+vf::jstr(how)+",\"choices\":"+vf::jstr(e.str())); return; } bodies.push_back(r.body); pos+=r.consumed; } if(pos!=x.reply.size()){ vf::violation("trailing-bytes:http","bytes after the last response on the connection ["+how+"]","\"case\":"+vf::jstr(how)); return; } }
	else if(p==SCGI){ Resp r=parse_cgi(x.reply); if(!r.ok||r.status!=200){ vf::violation("bad-reply:scgi","SCGI reply malformed or status "+std::to_string(r.status)+": "+r.err+" ["+how+"]","\"case\":"+vf::jstr(how)+",\"choices\":"+vf::jstr(e.str())); return; } bodies.push_back(r.body); }
	else { FcgiOut f=parse_fcgi(x.reply); if(!f.ok){ vf::violation("bad-reply:fastcgi","FastCGI reply malformed: "+f.err+" ["+how+"]","\"case\":"+vf::jstr(how)+",\"choices\":"+vf::jstr(e.str())); return; } Resp r=parse_cgi(f.out); if(!r.ok||r.status!=200){ vf::violation("bad-reply:fastcgi","FastCGI STDOUT malformed or status "+std::to_string(r.status)+" ["+how+"]","\"case\":"+vf::jstr(how)+",\"choices\":"+vf::jstr(e.str())); return; } bodies.push_back(r.body); }
	for(size_t i=0;i<reqs.size();i++){ std::string want=expected_dump(*reqs[i]); if(bodies[i]!=want){ std::string d=first_diff(bodies[i],want); std::string field=d.size()>5?d.substr(5,1):"?"; vf::violation(std::string("request-differs:")+PROTO_NAME[p]+":"+reqs[i]->label,"application observed a request different from the one encoded ("+d+") ["+how+(keep?" request#"+std::to_string(i+1):"")+"]","\"case\":"+vf::jstr(how)+",\"choices\":"+vf::jstr(e.str())); return; } }
	{ static uint64_t sc=0; if(vf::sample_tick(sc,1009)) vf::sample("{\"case\":"+vf::jstr(cs)+",\"stream_bytes\":"+std::to_string(bytes.size())+",\"read_answers\":"+vf::jstr(e.str())+",\"result\":\"application observed the encoded request\"}"); }
	vf::outcome(std::string(PROTO_NAME[p])+reqs[0]->label+std::to_string(reqs.size())+(e.str().find_first_not_of("0,")==std::string::npos?"d":"s")); }

static void explore_reads(Proto p,const std::vector<const AReq*> &reqs,const std::string &bytes,const std::string &cs,int dev){ g_explore_reads=true; bool complete=true; vf::explore(dev,[&](vf::Envx &e){ run_case(p,reqs,bytes,cs,e); },&complete,[](){ return vf::deadline_reached()||vf::nviol()>40; }); g_explore_reads=false; if(!complete) vf::C().exhaustive=false; }

static void shard(int sh,int n){ bool th=vf::thorough(); cppcms::json::value cfg; cfg["http"]["script_names"][0]="/echo/sub"; cfg["http"]["script_names"][1]="/echo"; cfg["http"]["script_names"][2]="/aecho"; int small_buf= (sh%2); if(small_buf) cfg["service"]["input_buffer_size"]=7; g_srv.start(cfg,echo::mount_echo);
	std::vector<AReq> R=requests(); int idx=0; const char *scripts[]={"/echo","/aecho"};
	for(size_t ri=0;ri<R.size();ri++) for(int app=0;app<2;app++) for(int pi=0;pi<3;pi++){ if(((idx++/2)%(n/2))!=(sh/2)) continue; // pairs of shards (default / 7-byte input buffer) cover the same cases
		AReq a=R[ri]; if(app==1){ if(a.r.script!="/echo") continue; a.r.script=scripts[1]; } Proto p=(Proto)pi; std::vector<const AReq*> one(1,&a); std::string cs=std::string(PROTO_NAME[p])+(app?"/async ":"/sync ")+a.label+(small_buf?" input_buffer_size=7":"");
		std::string bytes= p==HTTP?enc_http(a.r): p==SCGI?enc_scgi(a.r):enc_fcgi(a.r); int dev= (bytes.size()<=250&&th)?2:1; if(a.r.body.size()>5000&&!th&&app==1) dev=1; vf::announce(cs);
		explore_reads(p,one,bytes,cs,dev);
		if(p==HTTP){ explore_reads(p,one,enc_http(a.r,true),cs+" http/1.1",th?1:0); explore_reads(p,one,enc_http(a.r,false,true),cs+" folded",1); vf::guard("folded_headers"); }
		if(p==FCGI){ // record cuts at every position of PARAMS and STDIN (<= 1 cut, thorough 2), padding, 4-byte lengths, filler
			std::string params=fcgi_params(a.r); vf::Envx e0; size_t stepp= params.size()>400? 7:1; for(size_t c=1;c<params.size();c+=stepp){ std::vector<size_t> pc(1,c); for(int pad=0;pad<=7;pad+= (pad==0?1:6)){ e0.begin(std::vector<int>()); run_case(p,one,enc_fcgi(a.r,pc,std::vector<size_t>(),pad),cs+" params-cut@"+std::to_string(c)+" pad="+std::to_string(pad),e0); vf::guard("fcgi_param_cuts"); } }
			if(th) for(size_t c=1;c<params.size();c+=11) for(size_t c2=c+1;c2<params.size();c2+=23){ std::vector<size_t> pc; pc.push_back(c); pc.push_back(c2); e0.begin(std::vector<int>()); run_case(p,one,enc_fcgi(a.r,pc,std::vector<size_t>(),1),cs+" params-cuts@"+std::to_string(c)+","+std::to_string(c2),e0); }
			size_t steps= a.r.body.size()>400? (a.r.body.size()>5000?997:13):1; for(size_t c=1;c<a.r.body.size();c+=steps){ std::vector<size_t> sc(1,c); for(int pad=0;pad<=7;pad+=7){ e0.begin(std::vector<int>()); run_case(p,one,enc_fcgi(a.r,std::vector<size_t>(),sc,pad),cs+" stdin-cut@"+std::to_string(c)+" pad="+std::to_string(pad),e0); vf::guard("fcgi_stdin_cuts"); } }
			e0.begin(std::vector<int>()); run_case(p,one,enc_fcgi(a.r,std::vector<size_t>(),std::vector<size_t>(),0,true),cs+" 4-byte-lengths",e0); e0.begin(std::vector<int>()); run_case(p,one,enc_fcgi(a.r,std::vector<size_t>(),std::vector<size_t>(),3,false,true),cs+" keep_conn",e0);
			// cuts combined with read segmentation
			{ std::vector<size_t> pc(1,params.size()/2),sc(1,a.r.body.size()/2); explore_reads(p,one,enc_fcgi(a.r,pc,sc,5),cs+" cut-mid pad=5",1); } }
	}
	// keep-alive pipelines (HTTP): all requests queued before the first read
	{ std::vector<size_t> pick; pick.push_back(1); pick.push_back(5); pick.push_back(10); pick.push_back(11); pick.push_back(7); pick.push_back(13); int kidx=0; for(size_t i=0;i<pick.size();i++) for(size_t j=0;j<pick.size();j++) for(int third=0;third<(th?2:1);third++) for(int app=0;app<2;app++){ if(((kidx++)%(n/2))!=(sh/2)) continue; AReq a=R[pick[i]],b=R[pick[j]],c=R[pick[(i+j)%pick.size()]]; if(app){ a.r.script=b.r.script=c.r.script="/aecho"; } std::vector<const AReq*> rs; a.r.keep_alive=true; rs.push_back(&a); std::string bytes=enc_http(a.r); if(third){ b.r.keep_alive=true; bytes+=enc_http(b.r); rs.push_back(&b); bytes+=enc_http(c.r); rs.push_back(&c); } else { bytes+=enc_http(b.r); rs.push_back(&b); }
			std::string cs=std::string("http")+(app?"/async":"/sync")+" keep-alive "+a.label+" + "+b.label+(third?" + "+c.label:"")+(small_buf?" input_buffer_size=7":""); vf::announce(cs); explore_reads(HTTP,rs,bytes,cs,1); vf::guard("keepalive_pipelines"); } }
	vf::guard("runs",n_runs); vf::guard("read_choice_points",g_read_points); vf::guard("partial_reads",g_partial_reads); vf::guard("eagain_reads",g_eagain_reads); vf::guard("app_main_calls",echo::g_main_calls);
	if(!g_srv.alive()) vf::violation("service-died","service::run() returned or threw during the exploration: "+g_srv.run_exception,"\"case\":\"service\"");
	g_srv.stop(); }

int main(int argc,char **argv){ vf::init(argc,argv,"C01","exploration"); int n=16; signal(SIGPIPE,SIG_IGN);
	vf::C().rule="16 abstract requests (methods, escaped path, script-name prefix cases, query, cookies incl. quoted value, quoted/commented/folded headers, urlencoded / raw / 20000-byte bodies) x {http, scgi, fastcgi} x {sync, async app} x service.input_buffer_size {default, 7}; server-side read answers: each readv returns all | k bytes (every k for <=192 available bytes, a boundary menu beyond) | EAGAIN, explored with <= 1 deviation (thorough: 2 for streams <= 250 bytes); FastCGI PARAMS/STDIN cut into records at every position x padding {0,1,7}, 4-byte lengths, keep_conn; HTTP/1.1 and folded headers; pipelined keep-alive sequences of 2 (thorough 3) requests. distinct = (protocol, request, pipeline length, default/segmented)";
	vf::assume("reference CGI mapping in harness/C01; header-name case, duplicate headers, valueless query keys, obsolete $Path cookie attributes and NUL inside CGI variables are not generated"); vf::assume("the interposed readv waits until all bytes the client queued have arrived, so every answer menu is replayable");
	if(!vf::C().replay_file.empty()) printf("replay: run the quick tier; the case text in the replay file names protocol, request and the choice vector\n");
	if(getenv("VERIF_ONLY_SHARD")){ shard(atoi(getenv("VERIF_ONLY_SHARD")),n); return vf::finish(); }
	vf::parallel(n,n,[&](int sh){ shard(sh,n); },vf::thorough()?1700:280);
	vf::require_guard("partial_reads"); vf::require_guard("eagain_reads"); vf::require_guard("fcgi_param_cuts"); vf::require_guard("fcgi_stdin_cuts"); vf::require_guard("keepalive_pipelines"); vf::require_guard("folded_headers");
	return vf::finish(); }
