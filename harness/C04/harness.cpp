// C04 - XSS filter output contains only white-listed markup and is stable.
// Bounded-exhaustive: every string over a 26-token markup alphabet and over a 14-character alphabet up to a
// length, under 6 rule sets x {remove_invalid, escape_invalid}; byte-level token strings under 4 encodings.
// Oracles: validate(filter(x)); filter(filter(x))==filter(x); validate(x) => filter(x)==x; verdict of validate ==
// verdict of validate_and_filter_if_invalid; an independent lenient scanner that knows the rule sets as plain tables.
#include "vf.h"
#include <cppcms/xss.h>
#include <booster/regex.h>
#include <booster/locale/encoding.h>

using namespace cppcms;

// ---------------- rule sets as plain tables (for the scanner) + as xss::rules (for the code) -------------
enum Kind { K_BOOL, K_INT, K_ALPHA /* regex [a-z]+ */, K_ANY /* regex .* : the validator admits everything, so only the general rule (no raw < or > in a value) protects */, K_URI, K_RELURI, K_ABSURI_HTTP /* absolute, scheme http|https */ };
struct PropSpec { const char *tag,*prop; Kind k; };
struct TagSpec { const char *name; int type; /*1 open+close 2 standalone 3 any*/ };
struct RuleSpec { std::string label; bool xhtml; std::vector<TagSpec> tags; std::vector<PropSpec> props; std::vector<std::string> entities; bool numeric, comments; std::string enc; };
static std::vector<RuleSpec> rule_specs(){ std::vector<RuleSpec> r;
	TagSpec t1[]={{"a",1},{"b",1},{"i",1},{"br",2},{"img",2},{"input",3}}; PropSpec p1[]={{"a","href",K_URI},{"a","title",K_ALPHA},{"img","src",K_URI},{"input","checked",K_BOOL},{"input","size",K_INT},{"b","title",K_ANY},{"i","title",K_ANY}};
	RuleSpec a; a.label="xhtml-basic"; a.xhtml=true; a.tags.assign(t1,t1+6); a.props.assign(p1,p1+7); a.entities.push_back("nbsp"); a.numeric=false; a.comments=false; r.push_back(a);
	RuleSpec b=a; b.label="html-all"; b.xhtml=false; b.numeric=true; b.comments=true; r.push_back(b);
	RuleSpec c=a; c.label="xhtml-strict-uri"; c.props.clear(); PropSpec p3[]={{"a","href",K_ABSURI_HTTP},{"img","src",K_RELURI},{"input","checked",K_BOOL}}; c.props.assign(p3,p3+3); c.numeric=true; c.comments=true; r.push_back(c);
	RuleSpec d; d.label="html-minimal"; d.xhtml=false; TagSpec t4[]={{"b",1}}; d.tags.assign(t4,t4+1); d.numeric=false; d.comments=false; r.push_back(d);
	RuleSpec e=b; e.label="html-all-utf8"; e.enc="UTF-8"; r.push_back(e);
	RuleSpec f=a; f.label="xhtml-comments-latin1"; f.comments=true; f.enc="ISO-8859-1"; r.push_back(f);
	return r; }
static xss::rules build(const RuleSpec &s){ xss::rules r; r.html(s.xhtml?xss::rules::xhtml_input:xss::rules::html_input);
	for(size_t i=0;i<s.tags.size();i++) r.add_tag(s.tags[i].name,(xss::rules::tag_type)s.tags[i].type);
	for(size_t i=0;i<s.props.size();i++){ const PropSpec &p=s.props[i]; switch(p.k){ case K_BOOL: r.add_boolean_property(p.tag,p.prop); break; case K_INT: r.add_integer_property(p.tag,p.prop); break; case K_ALPHA: r.add_property(p.tag,p.prop,booster::regex("[a-z]+")); break; case K_ANY: r.add_property(p.tag,p.prop,booster::regex(".*")); break; case K_URI: r.add_uri_property(p.tag,p.prop); break; case K_RELURI: r.add_property(p.tag,p.prop,xss::rules::relative_uri_validator()); break; case K_ABSURI_HTTP: r.add_property(p.tag,p.prop,xss::rules::uri_validator("(http|https)",true)); break; } }
	for(size_t i=0;i<s.entities.size();i++) r.add_entity(s.entities[i]); r.numeric_entities_allowed(s.numeric); r.comments_allowed(s.comments); if(!s.enc.empty()) r.encoding(s.enc); return r; }

// ---------------- independent lenient scanner -------------------------------------------------------------
static bool ieq(const std::string &a,const std::string &b,bool cs){ if(a.size()!=b.size()) return false; for(size_t i=0;i<a.size();i++){ char x=a[i],y=b[i]; if(!cs){ x=tolower((unsigned char)x); y=tolower((unsigned char)y);} if(x!=y) return false; } return true; }
static bool isal(char c){ return (c>='a'&&c<='z')||(c>='A'&&c<='Z'); } static bool isan(char c){ return isal(c)||(c>='0'&&c<='9'); } static bool issp(char c){ return c==' '||c=='\t'||c=='\n'||c=='\r'||c=='\f'||c=='\v'; }
// decode the fixed entity set a value may contain, the way a browser would before using the value
static std::string attr_decode(const std::string &v){ std::string r; for(size_t i=0;i<v.size();){ if(v[i]=='&'){ struct{const char *e; char c;} t[]={{"&amp;",'&'},{"&lt;",'<'},{"&gt;",'>'},{"&quot;",'"'},{"&apos;",'\''},{"&#39;",'\''},{"&#x27;",'\''},{"&#X27;",'\''}}; bool f=false; for(int k=0;k<8;k++){ size_t l=strlen(t[k].e); if(!v.compare(i,l,t[k].e)){ r+=t[k].c; i+=l; f=true; break; } } if(!f){ r+=v[i++]; } } else r+=v[i++]; } return r; }
static bool scheme_of(const std::string &raw,std::string &scheme){ // browser-like: strip leading space/control, drop tab/newline inside, then [a-zA-Z][a-zA-Z0-9+.-]*:
	std::string v; for(size_t i=0;i<raw.size();i++){ unsigned char c=raw[i]; if(c=='\t'||c=='\n'||c=='\r') continue; v+=(char)c; } size_t i=0; while(i<v.size()&&(unsigned char)v[i]<=0x20) i++;
	size_t s=i; if(i<v.size()&&isal(v[i])){ i++; while(i<v.size()&&(isan(v[i])||v[i]=='+'||v[i]=='.'||v[i]=='-')) i++; if(i<v.size()&&v[i]==':'){ scheme=v.substr(s,i-s); for(size_t k=0;k<scheme.size();k++) scheme[k]=tolower((unsigned char)scheme[k]); return true; } } return false; }
static bool value_ok(Kind k,const std::string &val,std::string &why){ std::string dec=attr_decode(val); std::string sc; switch(k){ case K_BOOL: why="boolean property with a value"; return false;
	case K_INT:{ size_t i=0; if(i<val.size()&&val[i]=='-') i++; if(i==val.size()){ why="empty integer"; return false;} for(;i<val.size();i++) if(val[i]<'0'||val[i]>'9'){ why="non-digit in integer property"; return false;} return true; }
	case K_ANY: return true;
	case K_ALPHA: if(val.empty()){ why="regex [a-z]+ on empty"; return false;} for(size_t i=0;i<val.size();i++) if(val[i]<'a'||val[i]>'z'){ why="value outside [a-z]+"; return false;} return true;
	case K_URI: if(scheme_of(dec,sc)){ const char *ok[]={"http","https","ftp","mailto","news","nntp"}; for(int i=0;i<6;i++) if(sc==ok[i]) return true; why="URI scheme '"+sc+"' not white-listed"; return false; } return true;
	case K_RELURI: if(scheme_of(dec,sc)){ why="scheme in a relative-only URI"; return false;} return true;
	case K_ABSURI_HTTP: if(!scheme_of(dec,sc)){ why="no scheme in an absolute-only URI"; return false;} if(sc!="http"&&sc!="https"){ why="URI scheme '"+sc+"' not white-listed"; return false;} return true; } return false; }
// numeric character reference: 1 = denotes an allowed code point, 0 = does not, 2 = not demanded either way (low surrogates, see DESIGN.md)
// The digits are evaluated with arbitrary precision (saturating), so a reference whose value only looks harmless modulo 2^32 or 2^64 is "not allowed".
static int ncr_verdict(const std::string &digits,bool hex){ unsigned long long v=0; bool big=false; for(size_t i=0;i<digits.size();i++){ int d= isdigit((unsigned char)digits[i])? digits[i]-'0' : (tolower(digits[i])-'a'+10); v=v*(hex?16:10)+d; if(v>0x10FFFF){ big=true; break; } }
	if(big) return 0; if(v>=0xDC00&&v<=0xDFFF) return 2; if(v>=0xD800&&v<=0xDBFF) return 0; if(v==0xFFFE||v==0xFFFF) return 0; if(v>=0x7F&&v<=0x9F) return 0; if(v<0x20&&!(v==9||v==10||v==13)) return 0; return 1; }
// returns "" if every markup-opening character of y lies inside an allowed construct, else the reason
static std::string scan(const RuleSpec &R,const std::string &y){ size_t i=0,n=y.size(); bool cs=R.xhtml;
	while(i<n){ char c=y[i]; if(c=='>') return "bare '>' at "+std::to_string(i);
		if(c=='&'){ size_t j=i+1; if(j<n&&y[j]=='#'){ if(!R.numeric) return "numeric entity while numeric entities are off"; j++; bool hex=false; if(j<n&&(y[j]=='x'||y[j]=='X')){ hex=true; j++; } size_t s=j; while(j<n&&(hex?isxdigit((unsigned char)y[j]):isdigit((unsigned char)y[j]))) j++; if(j==s||j>=n||y[j]!=';') return "malformed numeric entity"; { int v=ncr_verdict(y.substr(s,j-s),hex); if(v==0) return "numeric entity &#"+std::string(hex?"x":"")+y.substr(s,j-s)+"; does not denote an allowed code point"; } i=j+1; continue; }
			size_t s=j; while(j<n&&isan(y[j])) j++; if(j==s||j>=n||y[j]!=';') return "bare '&' at "+std::to_string(i); std::string name=y.substr(s,j-s); bool ok=(name=="lt"||name=="gt"||name=="amp"||name=="quot"); for(size_t k=0;k<R.entities.size();k++) if(R.entities[k]==name) ok=true; if(!ok) return "entity &"+name+"; not white-listed"; i=j+1; continue; }
		if(c!='<'){ i++; continue; }
		// '<'
		if(!y.compare(i,4,"<!--")){ if(!R.comments) return "comment while comments are off"; size_t e=y.find("-->",i+4); if(e==std::string::npos) return "unterminated comment"; for(size_t k=i+4;k<e;k++) if(y[k]=='<'||y[k]=='>'||y[k]=='&') return "markup character inside a comment"; i=e+3; continue; }
		size_t j=i+1; bool closing=false; if(j<n&&y[j]=='/'){ closing=true; j++; } size_t s=j; if(j>=n||!isal(y[j])) return "'<' not followed by a tag name at "+std::to_string(i); while(j<n&&isan(y[j])) j++; std::string name=y.substr(s,j-s);
		const TagSpec *ts=0; for(size_t k=0;k<R.tags.size();k++) if(ieq(R.tags[k].name,name,cs)) ts=&R.tags[k]; if(!ts) return "tag <"+name+"> not white-listed";
		if(closing){ while(j<n&&issp(y[j])) j++; if(j>=n||y[j]!='>') return "junk in closing tag </"+name+">"; if(ts->type==2) return "closing tag for stand-alone <"+name+">"; i=j+1; continue; }
		std::vector<std::string> seen; bool selfclose=false;
		for(;;){ size_t before=j; while(j<n&&issp(y[j])) j++; if(j>=n) return "unterminated tag <"+name; if(y[j]=='>'){ j++; break; } if(y[j]=='/'&&j+1<n&&y[j+1]=='>'){ selfclose=true; j+=2; break; }
			if(j==before&&!seen.empty()&&false) return "attributes not separated"; if(!isal(y[j])) return "unexpected character in tag <"+name+"> at "+std::to_string(j);
			size_t ps=j; while(j<n&&isan(y[j])) j++; std::string pn=y.substr(ps,j-ps); for(size_t k=0;k<seen.size();k++) if(ieq(seen[k],pn,cs)) return "duplicate attribute "+pn; seen.push_back(pn);
			const PropSpec *sp=0; for(size_t k=0;k<R.props.size();k++) if(ieq(R.props[k].tag,name,cs)&&ieq(R.props[k].prop,pn,cs)) sp=&R.props[k]; if(!sp) return "attribute "+pn+" of <"+name+"> not white-listed";
			size_t q=j; while(q<n&&issp(y[q])) q++; if(q<n&&y[q]=='='){ q++; while(q<n&&issp(y[q])) q++; if(q>=n||(y[q]!='"'&&y[q]!='\'')) return "unquoted attribute value"; char qu=y[q]; size_t ve=y.find(qu,q+1); if(ve==std::string::npos) return "unterminated attribute value"; std::string val=y.substr(q+1,ve-q-1); for(size_t k=0;k<val.size();k++) if(val[k]=='<'||val[k]=='>') return "markup character in attribute value"; std::string why; if(!value_ok(sp->k,val,why)) return "attribute "+pn+"='"+val+"': "+why; j=ve+1; }
			else { if(sp->k!=K_BOOL) return "attribute "+pn+" without a value but not boolean"; } }
		if(ts->type==1&&selfclose) return "self-closed <"+name+"/> for an open+close tag"; i=j; }
	return ""; }

// ---------------- one case -----------------------------------------------------------------------------------
struct Cfg { RuleSpec spec; xss::rules rules; };
static std::vector<Cfg> g_cfg;
static void bad(const std::string &sig,const std::string &what,const Cfg &c,int method,const std::string &in){ vf::violation(sig+":"+c.spec.label,what+" [rules "+c.spec.label+", "+(method?"escape_invalid":"remove_invalid")+", input "+vf::vis(in)+"]","\"op\":"+vf::jstr(sig)+",\"rules\":"+vf::jstr(c.spec.label)+",\"method\":"+std::to_string(method)+",\"input_hex\":"+vf::jstr(vf::hex(in))); }
static uint64_t n_valid=0,n_filtered=0,n_kept_markup=0;
static void one(const Cfg &c,const std::string &x,bool scanner,bool outcomes){ const char *b=x.data(),*e=b+x.size(); bool vx=xss::validate(b,e,c.rules);
	for(int m=0;m<2;m++){ vf::eval(); xss::filtering_method_type mt=m?xss::escape_invalid:xss::remove_invalid; std::string y=xss::filter(x,c.rules,mt);
		std::string out="#"; bool vf2=xss::validate_and_filter_if_invalid(b,e,c.rules,out,mt); if(vf2!=vx) bad("xss:verdict-mismatch","validate and validate_and_filter_if_invalid disagree on validity",c,m,x);
		if(vx){ if(y!=x) bad("xss:valid-changed","input that validates is not returned unchanged: "+vf::vis(y),c,m,x); if(m==0) n_valid++; }
		else { if(m==0) n_filtered++; }
		if(!xss::validate(y.data(),y.data()+y.size(),c.rules)) bad("xss:output-invalid","filter output does not pass validation: "+vf::vis(y),c,m,x);
		std::string y2=xss::filter(y,c.rules,mt); if(y2!=y) bad("xss:not-idempotent","filter is not idempotent: "+vf::vis(y)+" -> "+vf::vis(y2),c,m,x);
		{ std::string y3=xss::filter(b,e,c.rules,mt); if(y3!=y) bad("xss:overloads","filter(string) and filter(ptr) disagree",c,m,x); }
		if(scanner){ std::string why=scan(c.spec,y); if(!why.empty()) bad("xss:scanner","filter output contains markup outside the white list ("+why+"): "+vf::vis(y),c,m,x); if(!vx&&y.find('<')!=std::string::npos) n_kept_markup++; }
		if(outcomes) vf::outcome(c.spec.label+(m?"E":"R")+(vx?"v":"i")+y);
		if(outcomes&&!vx&&!y.empty()){ static uint64_t sc=0; if(vf::sample_tick(sc,7919)) vf::sample("{\"rules\":"+vf::jstr(c.spec.label)+",\"method\":"+(m?"\"escape_invalid\"":"\"remove_invalid\"")+",\"input\":"+vf::jstr(vf::vis(x))+",\"output\":"+vf::jstr(vf::vis(y))+"}"); } } }
static void flush(){ vf::guard("inputs_valid",n_valid); vf::guard("inputs_filtered",n_filtered); vf::guard("filtered_outputs_keeping_markup",n_kept_markup); n_valid=n_filtered=n_kept_markup=0; }

static std::vector<std::string> tokens(){ const char *t[]={"<a>","</a>","<b>","</b>","<i>","<br>","<br/>","<BR>","<a href='x'>","<a href=\"javascript:x\">","<a href='http://h/p?q&amp;r'>","<a onclick='x'>","<img src='x' src='y'>","<input checked>","<x>","<!--c-->","<!--<-->","&amp;","&#60;","&#x1;","&bogus;","&","<",">","t","\""}; return std::vector<std::string>(t,t+26); }
static std::vector<std::string> chars(){ const char *t[]={"<",">","&",";","a","/","=","'","\"","!","-","#"," ","x"}; return std::vector<std::string>(t,t+14); }
template<class F> void all_seq(const std::vector<std::string> &alpha,int maxlen,int sh,int n,F f){ std::string cur; uint64_t idx=0; std::function<void(int)> rec=[&](int d){ if((idx++%n)==(uint64_t)sh) f(cur); if(d==maxlen) return; for(size_t i=0;i<alpha.size();i++){ size_t l=cur.size(); cur+=alpha[i]; rec(d+1); cur.resize(l);} }; rec(0); }

static void markup_pass(int sh,int n,int tlen,int clen,bool outcomes){ size_t ncfg=4; // the four rule sets without an encoding; the two with an encoding run on ASCII too
	all_seq(tokens(),tlen,sh,n,[&](const std::string &s){ vf::announce("tokens "+vf::hex(s)); for(size_t k=0;k<g_cfg.size();k++) one(g_cfg[k],s,true,outcomes&&s.size()<=9); });
	all_seq(chars(),clen,sh,n,[&](const std::string &s){ vf::announce("chars "+vf::hex(s)); for(size_t k=0;k<g_cfg.size();k++) one(g_cfg[k],s,true,outcomes&&s.size()<=3); }); (void)ncfg; flush(); }
// targeted attribute / URI values inside a white-listed tag (scheme obfuscations a browser would still execute)
static void uri_pass(int sh,int n){ const char *vals[]={"javascript:alert(1)","JaVaScRiPt:x","java\tscript:x","java&#x09;script:x"," javascript:x","&#106;avascript:x","jav&#x61;script:x","vbscript:x","data:text/html,x","http://a/b","HTTPS://a","//host/p","/p?a=1&amp;b=2","p#f","mailto:a@b","ftp://h","x:y","http:","","a b","http://a/%zz","http://[::1]/","?q","&amp;","&lt;script&gt;","'","\"","&apos;","&#39;","&#x27;","-12","12","1x","abc","ABC","a&amp;b",
		/* schemes with every character class RFC 3986 allows after the first letter, and near misses */ "ms-msdt:/id","view-source:http://a/","x-javascript:alert(1)","a-b:c","a+b:c","a.b:c","a_b:c","-a:b","+a:b",".a:b","1a:b","a1:b","http-x://h/","svn+ssh://h/p","z39.50s://h","a:","a:b","ab:c","http-:x","h-t-t-p://x","java-script:x","a--b:c","a-:b","data-x:1",
		/* raw markup characters inside a quoted value (only the general rule rejects them when the property validator admits everything) */ "<","x<script","<b>","a>b",">","x<","<!--","&lt;b&gt;","a&b","x y"};
	const char *tmpl[]={"<a href='%'>t</a>","<a href=\"%\">t</a>","<a title='%'>t</a>","<img src='%'/>","<img src='%'>","<input size='%'/>","<input checked='%'/>","<a href='%' href='x'>t</a>","<A HREF='%'>t</A>","<a href ='%'>t</a>","<a href= '%'>t</a>","<a\thref='%'>t</a>","<a href='%'title='abc'>t</a>","<b title='%'>t</b>","<b title=\"%\">t</b>","<i title='%'>t</i>x","<B TITLE='%'>t</B>"}; int idx=0;
	for(size_t i=0;i<sizeof(vals)/sizeof(*vals);i++) for(size_t t=0;t<sizeof(tmpl)/sizeof(*tmpl);t++){ if((idx++%n)!=sh) continue; std::string s=tmpl[t]; size_t p=s.find('%'); s.replace(p,1,vals[i]); vf::announce("uri "+vf::hex(s)); for(size_t k=0;k<g_cfg.size();k++) one(g_cfg[k],s,true,true); vf::guard("uri_cases"); } flush(); }
// numeric character references at and around every boundary of the allowed set, in every spelling (radix, case, leading zeros, 9..40 digits):
// text that validates must only contain references to allowed code points; filter output likewise (through the scanner)
static std::string to_radix(unsigned __int128 v,bool hex,bool upper){ if(v==0) return "0"; std::string r; while(v){ int d=(int)(v%(hex?16:10)); r.insert(r.begin(),(char)(d<10?'0'+d:(upper?'A':'a')+d-10)); v/=(hex?16:10); } return r; }
static void entity_pass(int sh,int n){ std::vector<unsigned __int128> vals; for(unsigned v=0;v<=0x21;v++) vals.push_back(v); for(unsigned v=0x7D;v<=0xA1;v++) vals.push_back(v); unsigned b[]={0x3C,0x3E,0x26,0x41,0xFF,0x100,0x7FF,0x800,0xD7FF,0xD800,0xD801,0xDBFF,0xDC00,0xDFFF,0xE000,0xFFFD,0xFFFE,0xFFFF,0x10000,0x1F600,0x10FFFD,0x10FFFE,0x10FFFF,0x110000,0x110001,0x1FFFFF,0x7FFFFFFF,0x80000000u,0x80000041u,0xFFFFFFFFu}; for(size_t i=0;i<sizeof(b)/sizeof(*b);i++) vals.push_back(b[i]);
	unsigned low[]={0x00,0x09,0x3C,0x41,0x1F600,0x10FFFF}; int sh_[]={32,33,48,63,64,65,96}; for(size_t k=0;k<sizeof(sh_)/sizeof(*sh_);k++) for(size_t i=0;i<sizeof(low)/sizeof(*low);i++){ vals.push_back(((unsigned __int128)1<<sh_[k])+low[i]); vals.push_back(((unsigned __int128)0x12345678<<sh_[k])+low[i]); } vals.push_back(((unsigned __int128)1<<63)-1); vals.push_back(((unsigned __int128)1<<64)-1); vals.push_back(~(unsigned __int128)0);
	const char *tmpl[]={"a%b","%","<b>%</b>","<a title='%'>t</a>","%%"}; int idx=0;
	for(size_t vi=0;vi<vals.size();vi++) for(int radix=0;radix<3;radix++) for(int zeros=0;zeros<3;zeros++) for(size_t t=0;t<sizeof(tmpl)/sizeof(*tmpl);t++){ if((idx++%n)!=sh) continue; bool hex=radix>0; std::string digits=std::string(zeros==0?0:zeros==1?1:12,'0')+to_radix(vals[vi],hex,radix==2); std::string ent="&#"+std::string(radix==0?"":radix==1?"x":"X")+digits+";"; std::string in=tmpl[t]; for(size_t p2=in.find('%');p2!=std::string::npos;p2=in.find('%',p2+ent.size())) in.replace(p2,1,ent);
		vf::announce("entity "+vf::hex(in)); int verdict=ncr_verdict(digits,hex);
		for(size_t k=0;k<g_cfg.size();k++){ const Cfg &c=g_cfg[k]; bool vx=xss::validate(in.data(),in.data()+in.size(),c.rules); if(vx&&(!c.spec.numeric||verdict==0)) bad("xss:numeric-entity-accepted",std::string("validate accepts a numeric character reference that ")+(c.spec.numeric?"does not denote an allowed code point":"the rules do not allow at all"),c,0,in); if(vx&&verdict==1) vf::guard("numeric_entities_accepted"); if(!vx&&c.spec.numeric&&verdict==0) vf::guard("numeric_entities_refused"); if(verdict==0&&vals[vi]>0xFFFFFFFFu) vf::guard("numeric_entities_beyond_32_bits"); one(c,in,true,t==0&&zeros==0); } }
	flush(); }
// encodings: byte-level tokens around markup
static bool ref_valid_enc(const std::string &enc,const std::string &s){ if(enc=="UTF-8"){ size_t i=0; while(i<s.size()){ unsigned char a=s[i]; size_t l=0; uint32_t cp=0; const unsigned char *p=(const unsigned char*)s.data()+i; size_t n=s.size()-i;
			#define TLX(x) ((x)>=0x80&&(x)<=0xBF)
			if(a<=0x7F){ l=1; cp=a; } else if(a>=0xC2&&a<=0xDF&&n>=2&&TLX(p[1])){ l=2; cp=((a&0x1F)<<6)|(p[1]&0x3F); } else if(a>=0xE0&&a<=0xEF&&n>=3&&TLX(p[2])&&(a==0xE0?(p[1]>=0xA0&&p[1]<=0xBF):a==0xED?(p[1]>=0x80&&p[1]<=0x9F):TLX(p[1]))){ l=3; cp=0x800; } else if(a>=0xF0&&a<=0xF4&&n>=4&&TLX(p[2])&&TLX(p[3])&&(a==0xF0?(p[1]>=0x90&&p[1]<=0xBF):a==0xF4?(p[1]>=0x80&&p[1]<=0x8F):TLX(p[1]))){ l=4; cp=0x10000; } else return false;
			if(!(cp==9||cp==10||cp==13)&&(cp<0x20||(cp>=0x7F&&cp<=0x9F))) return false; i+=l; } return true; }
	for(size_t i=0;i<s.size();i++){ unsigned char c=s[i]; if(c==9||c==10||c==13) continue; if(c<0x20||c==0x7F) return false; if(enc=="ISO-8859-1"&&c>=0x80&&c<=0x9F) return false; if(enc=="windows-1252"&&(c==0x81||c==0x8D||c==0x8F||c==0x90||c==0x9D)) return false; } return true; }
static void encoding_pass(int sh,int n){ std::vector<std::string> bt; bt.push_back("a"); bt.push_back("\xc3\xa9"); bt.push_back("\xc3"); bt.push_back("\xa9"); bt.push_back("\xc2\x85"); bt.push_back(std::string(1,'\0')); bt.push_back("<b>"); bt.push_back("</b>"); bt.push_back("&amp;"); bt.push_back("<"); bt.push_back("\x81");
	const char *encs[]={"UTF-8","ISO-8859-1","windows-1252"}; RuleSpec base=rule_specs()[1]; std::vector<Cfg> cfgs; for(int k=0;k<3;k++){ Cfg c; c.spec=base; c.spec.enc=encs[k]; c.spec.label=std::string("html-all-")+encs[k]; c.rules=build(c.spec); cfgs.push_back(c); }
	all_seq(bt,vf::thorough()?5:4,sh,n,[&](const std::string &s){ vf::announce("enc "+vf::hex(s)); for(size_t k=0;k<cfgs.size();k++){ const Cfg &c=cfgs[k]; bool vx=xss::validate(s.data(),s.data()+s.size(),c.rules); if(vx&&!ref_valid_enc(c.spec.enc,s)) bad("xss:accepts-ill-formed-text","validate accepts text that is not well-formed in the declared encoding",c,0,s); if(!ref_valid_enc(c.spec.enc,s)) vf::guard("ill_formed_inputs"); one(c,s,true,s.size()<=4); for(int rc=0;rc<1;rc++){ std::string y=xss::filter(s,c.rules,xss::remove_invalid,'?'); if(!ref_valid_enc(c.spec.enc,y)) bad("xss:output-ill-formed-text","filter output (replacement '?') is not well-formed in the declared encoding",c,0,s); if(!xss::validate(y.data(),y.data()+y.size(),c.rules)) bad("xss:output-invalid-repl","filter output with replacement char does not validate",c,0,s); } } });
	// a non-ASCII-compatible encoding: UTF-16LE
	{ Cfg c; c.spec=base; c.spec.enc="UTF-16LE"; c.spec.label="html-all-UTF-16LE"; c.rules=build(c.spec); std::vector<std::string> wt; const char *w[]={"<b>","</b>","t","&amp;","<x>","<","&"}; for(int i=0;i<7;i++){ std::string u; for(const char *p=w[i];*p;p++){ u+=*p; u+='\0'; } wt.push_back(u); } wt.push_back(std::string("\x00\xd8",2)); wt.push_back(std::string("\xe9\x00",2)); wt.push_back("z");
	  all_seq(wt,vf::thorough()?4:3,sh,n,[&](const std::string &s){ vf::announce("utf16 "+vf::hex(s)); vf::eval(); for(int m=0;m<2;m++){ xss::filtering_method_type mt=m?xss::escape_invalid:xss::remove_invalid; std::string y; try{ y=xss::filter(s,c.rules,mt); }catch(std::exception const &ex){ bad("xss:utf16-throw",std::string("filter throws on UTF-16LE input: ")+ex.what(),c,m,s); continue; } bool vx=xss::validate(s.data(),s.data()+s.size(),c.rules); if(vx&&y!=s) bad("xss:valid-changed","valid UTF-16LE input changed",c,m,s); if(!xss::validate(y.data(),y.data()+y.size(),c.rules)) bad("xss:output-invalid","filter output (UTF-16LE) does not validate: "+vf::hex(y),c,m,s); std::string y2=xss::filter(y,c.rules,mt); if(y2!=y) bad("xss:not-idempotent","filter not idempotent on UTF-16LE",c,m,s);
			// decode and scan
			std::string u8; try{ u8=booster::locale::conv::to_utf<char>(y.data(),y.data()+y.size(),"UTF-16LE",booster::locale::conv::stop); std::string why=scan(c.spec,u8); if(!why.empty()) bad("xss:scanner","UTF-16LE filter output contains markup outside the white list ("+why+")",c,m,s); }catch(...){ bad("xss:output-ill-formed-text","UTF-16LE filter output is not well-formed UTF-16",c,m,s); } vf::guard("utf16_cases"); } }); }
	flush(); }

int main(int argc,char **argv){ vf::init(argc,argv,"C04","exploration"); int n=16; bool th=vf::thorough();
	{ std::vector<RuleSpec> s=rule_specs(); for(size_t i=0;i<s.size();i++){ Cfg c; c.spec=s[i]; c.rules=build(s[i]); g_cfg.push_back(c); } }
	if(!vf::C().replay_file.empty()){ std::ifstream f(vf::C().replay_file); std::stringstream ss; ss<<f.rdbuf(); std::string l=ss.str(); std::string in=vf::unhex(vf::jfield(l,"input_hex")),rl=vf::jfield(l,"rules"); for(size_t k=0;k<g_cfg.size();k++) if(rl.empty()||rl==g_cfg[k].spec.label){ one(g_cfg[k],in,true,false); printf("replayed under %s: remove->%s escape->%s\n",g_cfg[k].spec.label.c_str(),vf::vis(xss::filter(in,g_cfg[k].rules,xss::remove_invalid)).c_str(),vf::vis(xss::filter(in,g_cfg[k].rules,xss::escape_invalid)).c_str()); } return vf::finish(); }
	if(vf::C().pass=="enum"){ vf::parallel(n,n,[&](int sh){ markup_pass(sh,n,th?5:4,th?7:6,false); },1500); return vf::finish(); }
	vf::C().rule=std::string("every sequence of <= ")+(th?"5":"4")+" tokens of a 26-token markup alphabet and every string of length <= "+(th?"7":"6")+" over {< > & ; a / = ' \" ! - # space x}, each under 6 rule sets (xhtml/html; open+close, stand-alone and any tags; boolean, integer, regex, uri, relative-uri, absolute-uri-with-scheme properties; entities; numeric entities and comments on/off; two with a declared encoding) x {remove_invalid, escape_invalid} (rel build; lengths 3/4 again under ASan); 60 attribute values (incl. URI schemes using '-', '+', '.', digits, and near misses) x 13 tag templates; numeric character references for ~160 values at every boundary of the allowed code-point set and beyond 2^32 / 2^64 / 2^96 x {decimal, hex, HEX} x {0,1,12} leading zeros x 5 templates (a reference must be refused unless its arbitrary-precision value is an allowed code point); byte-token strings under UTF-8 / ISO-8859-1 / windows-1252 and UTF-16LE. distinct = (rule set, method, validity, output text); all non-trivial";
	vf::assume("the lenient scanner in harness/C04 (rule sets as plain tables, browser-like scheme extraction) defines 'white-listed construct'");
	vf::assume("allowed numeric character reference = value (arbitrary precision) <= 0x10FFFF, not a C0/C1 control other than TAB/LF/CR, not U+FFFE/U+FFFF, not a high surrogate; low surrogates U+DC00..U+DFFF are not demanded either way (the implementation accepts them)"); vf::assume("what exactly is removed vs kept is not demanded, only that the result validates, is a fixed point, and contains no markup outside the white list");
	vf::run_sub("rel","enum");
	vf::parallel(n,n,[&](int sh){ markup_pass(sh,n,3,4,true); uri_pass(sh,n); entity_pass(sh,n); encoding_pass(sh,n); },1500);
	vf::require_guard("inputs_valid"); vf::require_guard("inputs_filtered"); vf::require_guard("filtered_outputs_keeping_markup"); vf::require_guard("uri_cases"); vf::require_guard("ill_formed_inputs"); vf::require_guard("utf16_cases"); vf::require_guard("numeric_entities_accepted"); vf::require_guard("numeric_entities_refused"); vf::require_guard("numeric_entities_beyond_32_bits");
	return vf::finish(); }
