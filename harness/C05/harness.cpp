// C05 - client-side sessions are accepted only if issued by this server and unexpired.
// Exhaustive tamper set over valid cookies: every single-bit flip, every truncation/extension, every 16-byte block
// swap/duplication, every byte-granular splice of two valid cookies, transplant under other key material, every
// single-character substitution in the cookie text, plus specials - through session_cookies::load with a cookie-jar
// adapter and through encryptor::decrypt. Oracle: the set of cipher texts actually issued under that key material.
#include "vf.h"
#include <cppcms/session_cookies.h>
#include <cppcms/session_interface.h>
#include <cppcms/session_pool.h>
#include <cppcms/http_cookie.h>
#include <cppcms/base64.h>
#include <cppcms/json.h>
#include <cppcms/crypto.h>
#include "aes_encryptor.h"
#include "hmac_encryptor.h"

static time_t g_T0=1000000; /* base of the virtual clock; the epoch2039 sub-pass sets it beyond 2^31 */ static time_t g_now=1000000; extern "C" time_t time(time_t *t){ if(t) *t=g_now; return g_now; }
using namespace cppcms;

struct Jar : public session_interface_cookie_adapter { std::string value; int cleared; int sets; Jar():cleared(0),sets(0){}
	void set_cookie(http::cookie const &c){ sets++; if(c.value().empty()) cleared++; else value=c.value(); }
	std::string get_session_cookie(std::string const &){ return value; }
	std::set<std::string> get_cookie_names(){ std::set<std::string> s; s.insert("cppcms_session"); return s; } };

static std::string hexkey(size_t n,int salt){ std::string k; for(size_t i=0;i<n;i++){ char b[3]; snprintf(b,3,"%02x",(unsigned)((i*37+salt*11+5)&0xff)); k+=b; } return k; }
struct Cfg { std::string label; std::unique_ptr<sessions::encryptor_factory> (*make)(const Cfg &); std::string algo,algo2; size_t klen,klen2; int salt; bool aes; std::string key_override,key2_override; /* hex; used by the key-sensitivity pass */ };
static std::unique_ptr<sessions::encryptor_factory> mk(const Cfg &c){ std::unique_ptr<sessions::encryptor_factory> f; crypto::key k(c.key_override.empty()?hexkey(c.klen,c.salt):c.key_override);
	if(!c.aes) f.reset(new sessions::impl::hmac_factory(c.algo,k)); else if(c.algo2.empty()) f.reset(new sessions::impl::aes_factory(c.algo,k)); else f.reset(new sessions::impl::aes_factory(c.algo,k,c.algo2,crypto::key(c.key2_override.empty()?hexkey(c.klen2,c.salt+1):c.key2_override))); return f; }
static std::vector<Cfg> configs(bool th){ std::vector<Cfg> v; auto add=[&](const std::string &l,const std::string &a,size_t kl,bool aes,const std::string &a2="",size_t kl2=0){ Cfg c; c.label=l; c.algo=a; c.klen=kl; c.aes=aes; c.algo2=a2; c.klen2=kl2; c.salt=v.size(); c.make=mk; v.push_back(c); };
	add("hmac-sha1/key20","sha1",20,false); add("hmac-sha256/key16","sha256",16,false); add("aes128/derived16","aes128",16,true); add("aes256-cbc+hmac-sha256/split","aes256",32,true,"sha256",32);
	if(th){ add("hmac-md5/key16","md5",16,false); add("hmac-sha224/key64","sha224",64,false); add("hmac-sha384/key129","sha384",129,false); add("hmac-sha512/key64","sha512",64,false); add("aes128/combined36","aes128",36,true); add("aes192/combined44","aes192",44,true); add("aes256/combined52","aes256",52,true); add("aes192/derived24","aes192",24,true); add("aes128-cbc+hmac-sha1/split","aes128",16,true,"sha1",20); }
	return v; }
static void bad(const std::string &sig,const std::string &what,const std::string &cs){ vf::violation(sig,what+" ["+cs+"]","\"op\":"+vf::jstr(sig)+",\"case\":"+vf::jstr(cs)); }

struct Issued { std::string data; time_t expiry; };
struct World { const Cfg *cfg; std::unique_ptr<sessions::encryptor_factory> fac; std::unique_ptr<sessions::session_cookies> cookies; std::unique_ptr<sessions::encryptor> enc; std::map<std::string,Issued> issued; /* cipher bytes -> */ std::map<std::string,Issued> issued_plain; /* encryptor-level: cipher -> plain */ session_pool *pool; };
static uint64_t n_accept=0,n_reject=0;
// present cookie text to session_cookies::load
static void try_cookie(World &w,const std::string &cookie,const std::string &how){ vf::eval(); Jar jar; jar.value=cookie; session_interface si(*w.pool,jar); std::string data="UNTOUCHED"; time_t exp=0; bool ok=false;
	try{ ok=w.cookies->load(si,data,exp); }catch(std::exception const &e){ bad("load:throws:"+w.cfg->label,"session_cookies::load throws: "+std::string(e.what()),how); return; }
	std::string cipher; bool dec= cookie.size()>=1&&cookie[0]=='C'&&b64url::decode(cookie.substr(1),cipher);
	{ static uint64_t sc=0; if(vf::sample_tick(sc,100003)) vf::sample("{\"case\":"+vf::jstr(how)+",\"cookie_prefix\":"+vf::jstr(cookie.substr(0,24))+",\"accepted\":"+(ok?"true":"false")+"}"); }
	if(cookie.size()>=1&&(cookie.size()-1)%4==1) dec=false; /* independent of the library's decoder: no base64 text has a length of 1 (mod 4) */
	if(ok){ n_accept++; std::map<std::string,Issued>::iterator it= dec? w.issued.find(cipher):w.issued.end(); if(it==w.issued.end()) bad("load:forged-accepted:"+w.cfg->label,"a cookie that does not decode to a cipher text this server issued is accepted",how+" cookie="+cookie.substr(0,60));
		else { if(it->second.data!=data||it->second.expiry!=exp) bad("load:wrong-content:"+w.cfg->label,"load returns data/expiry different from the save that produced this cipher text",how); if(exp<g_now) bad("load:expired-accepted:"+w.cfg->label,"an expired cookie is accepted",how); }
		if(jar.cleared) bad("load:cleared-valid:"+w.cfg->label,"a valid cookie was cleared",how); }
	else { n_reject++; if(!cookie.empty()&&!jar.cleared) bad("load:not-cleared:"+w.cfg->label,"a rejected cookie is not cleared from the jar",how); if(data!="UNTOUCHED") bad("load:output-on-reject:"+w.cfg->label,"load wrote data although it rejected the cookie",how);
		// a cookie that IS an issued, unexpired cipher text must be accepted
		if(dec){ std::map<std::string,Issued>::iterator it=w.issued.find(cipher); if(it!=w.issued.end()&&it->second.expiry>g_now) bad("load:valid-rejected:"+w.cfg->label,"an issued, unexpired cookie is rejected",how); } } }
static void try_cipher(World &w,const std::string &cipher,const std::string &how){ vf::eval(); std::string plain="UNTOUCHED"; bool ok=false; try{ ok=w.enc->decrypt(cipher,plain); }catch(std::exception const &e){ bad("decrypt:throws:"+w.cfg->label,"encryptor::decrypt throws: "+std::string(e.what()),how); return; }
	std::map<std::string,Issued>::iterator it=w.issued_plain.find(cipher); if(ok){ if(it==w.issued_plain.end()) bad("decrypt:forged-accepted:"+w.cfg->label,"decrypt accepts a cipher text that was never produced by encrypt under this key",how+" len="+std::to_string(cipher.size())); else if(it->second.data!=plain) bad("decrypt:wrong-plain:"+w.cfg->label,"decrypt returns another plain text",how); n_accept++; }
	else { if(it!=w.issued_plain.end()) bad("decrypt:valid-rejected:"+w.cfg->label,"decrypt rejects a cipher text produced by encrypt",how); n_reject++; } }

static std::string payload(size_t n,int v){ std::string s(n,0); for(size_t i=0;i<n;i++) s[i]=(char)((i*29+v*101+3)&0xff); return s; }
static void run_config(const Cfg &cfg,const std::vector<Cfg> &all,session_pool &pool,bool th){ World w; w.cfg=&cfg; w.pool=&pool; w.fac=cfg.make(cfg); w.cookies.reset(new sessions::session_cookies(w.fac->get())); w.enc=w.fac->get(); g_now=g_T0;
	size_t lens_q[]={0,1,7,8,15,16,17,31,32,33}; size_t lens_t[]={0,1,7,8,15,16,17,31,32,33,100,255,1000,4096}; size_t *lens=th?lens_t:lens_q; size_t nl=th?(vf::thorough()?14:12):10; std::vector<std::string> valid; // cookie texts
	// issue cookies: for each payload length: two cookies with equal payload (+1 different), expiry now+100
	for(size_t li=0;li<nl;li++) for(int v=0;v<3;v++){ std::string d=payload(lens[li],v==2?1:0); Jar jar; session_interface si(pool,jar); w.cookies->save(si,d,g_now+100,false,false); std::string c=si.temp_cookie_; if(c.size()<2||c[0]!='C'){ bad("save:shape:"+cfg.label,"saved cookie does not start with C","len="+std::to_string(lens[li])); continue; }
		for(size_t i=1;i<c.size();i++) if(!(isalnum((unsigned char)c[i])||c[i]=='-'||c[i]=='_')) bad("save:alphabet:"+cfg.label,"saved cookie has a non-URL-safe character","len="+std::to_string(lens[li]));
		std::string cipher; b64url::decode(c.substr(1),cipher); Issued is; is.data=d; is.expiry=g_now+100; w.issued[cipher]=is; valid.push_back(c); vf::eval();
		// save -> load identity
		{ Jar j2; j2.value=c; session_interface s2(pool,j2); std::string back; time_t e2=0; if(!w.cookies->load(s2,back,e2)||back!=d||e2!=g_now+100) bad("roundtrip:"+cfg.label,"save then load does not return the saved data and expiry","len="+std::to_string(lens[li])); else vf::guard("roundtrips"); }
		// secrecy, necessary conditions (AES only)
		if(cfg.aes){ if(v==1){ std::string prev=valid[valid.size()-2]; if(prev==c) bad("secrecy:deterministic:"+cfg.label,"two saves of the same payload give the same cookie","len="+std::to_string(lens[li])); if(prev.size()!=c.size()) bad("secrecy:length:"+cfg.label,"equal payloads give cookies of different length","len="+std::to_string(lens[li])); }
			if(lens[li]>=4) for(size_t o=0;o+4<=d.size();o++) if(cipher.find(d.substr(o,4))!=std::string::npos){ bad("secrecy:plaintext-visible:"+cfg.label,"a 4-byte window of the payload occurs in the cipher text","len="+std::to_string(lens[li])); break; } vf::guard("secrecy_checks"); } }
	// expiry grid
	{ time_t ex[]={g_now-1,g_now,g_now+1}; for(int i=0;i<3;i++){ Jar jar; session_interface si(pool,jar); std::string d=payload(9,5+i); w.cookies->save(si,d,ex[i],false,false); std::string c=si.temp_cookie_; std::string cipher; b64url::decode(c.substr(1),cipher); Issued is; is.data=d; is.expiry=ex[i]; w.issued[cipher]=is; Jar j2; j2.value=c; session_interface s2(pool,j2); std::string back; time_t e2; bool ok=w.cookies->load(s2,back,e2); vf::eval();
		if(i==0&&ok) bad("expiry:past-accepted:"+cfg.label,"a cookie whose expiry is in the past is accepted","expiry=now-1"); if(i==0&&!j2.cleared) bad("expiry:not-cleared:"+cfg.label,"an expired cookie is not cleared","expiry=now-1"); if(i==2&&(!ok||back!=d)) bad("expiry:future-rejected:"+cfg.label,"a cookie expiring in the future is rejected","expiry=now+1"); vf::guard("expiry_cases"); } }
	// encryptor level
	std::vector<std::string> ciphers; for(size_t li=0;li<nl;li++){ std::string p=payload(lens[li],7); std::string c=w.enc->encrypt(p); Issued is; is.data=p; is.expiry=0; w.issued_plain[c]=is; ciphers.push_back(c); std::string back; if(!w.enc->decrypt(c,back)||back!=p) bad("encryptor:roundtrip:"+cfg.label,"decrypt(encrypt(x)) != x","len="+std::to_string(lens[li])); }
	// ---- tamper set ----
	for(size_t vi=0;vi<valid.size();vi+= (th?1:3)){ const std::string &c=valid[vi]; std::string cipher; b64url::decode(c.substr(1),cipher); std::string tag=cfg.label+" cookie#"+std::to_string(vi); vf::announce("tamper "+tag);
		try_cookie(w,c,tag+" unchanged");
		for(size_t bit=0;bit<cipher.size()*8;bit++){ std::string m=cipher; m[bit/8]^=(char)(1<<(bit%8)); try_cookie(w,"C"+b64url::encode(m),tag+" bitflip@"+std::to_string(bit)); vf::guard("bitflips"); }
		for(size_t n=0;n<cipher.size();n++) try_cookie(w,"C"+b64url::encode(cipher.substr(0,n)),tag+" truncated-to="+std::to_string(n));
		for(size_t n=1;n<cipher.size();n+=3) try_cookie(w,"C"+b64url::encode(cipher.substr(n)),tag+" head-cut="+std::to_string(n));
		for(int ext=1;ext<=17;ext++) for(int f=0;f<2;f++){ try_cookie(w,"C"+b64url::encode(cipher+std::string(ext,f?'\xff':'\0')),tag+" extended+"+std::to_string(ext)); try_cookie(w,"C"+b64url::encode(std::string(ext,f?'\xff':'\0')+cipher),tag+" prefixed+"+std::to_string(ext)); }
		size_t nb=cipher.size()/16; for(size_t a=0;a<nb;a++) for(size_t b=0;b<nb;b++){ if(a==b) continue; std::string m=cipher; std::string A=m.substr(a*16,16),B=m.substr(b*16,16); m.replace(a*16,16,B); if(m!=cipher) try_cookie(w,"C"+b64url::encode(m),tag+" block"+std::to_string(a)+"<-"+std::to_string(b)); m.replace(b*16,16,A); if(m!=cipher) try_cookie(w,"C"+b64url::encode(m),tag+" swap"+std::to_string(a)+","+std::to_string(b)); std::string dup=cipher; dup.insert(a*16,B); try_cookie(w,"C"+b64url::encode(dup),tag+" dup"); vf::guard("block_ops"); }
		// text-level substitutions
		{ static const char alpha[]="ABCDEFGHIJKLMNOPQRSTUVWXYZabcdefghijklmnopqrstuvwxyz0123456789-_=+/ "; size_t step= th?1:(c.size()>60?5:2); for(size_t pos=0;pos<c.size();pos+=step) for(size_t a=0;a<sizeof(alpha);a++){ if(c[pos]==alpha[a]) continue; std::string m=c; m[pos]=alpha[a]; try_cookie(w,m,tag+" char@"+std::to_string(pos)); vf::guard("char_substitutions"); } }
		// text-level length changes: every single-character deletion, insertion of {A,_,-,=} at every (quick: every 3rd) position, appending 1..6 characters: the
		// cookie text then has a length no encoder produces (1 mod 4) or decodes to a longer/shorter cipher text
		{ for(size_t pos=1;pos<c.size();pos++){ std::string m=c; m.erase(pos,1); try_cookie(w,m,tag+" delete-char@"+std::to_string(pos)); vf::guard("char_deletions"); }
		  const char ins[]={'A','_','-','='}; for(size_t pos=1;pos<=c.size();pos+=(th?1:3)) for(int a=0;a<4;a++){ std::string m=c; m.insert(pos,1,ins[a]); try_cookie(w,m,tag+" insert-char@"+std::to_string(pos)); vf::guard("char_insertions"); }
		  for(int n=1;n<=6;n++) for(int a=0;a<4;a++){ try_cookie(w,c+std::string(n,ins[a]),tag+" append "+std::to_string(n)+" x '"+std::string(1,ins[a])+"'"); vf::guard("text_extensions"); } }
		// splices with every other valid cookie, byte granular
		for(size_t vj=0;vj<valid.size();vj+=(th?2:5)){ if(vj==vi) continue; std::string c2; b64url::decode(valid[vj].substr(1),c2); size_t step= th?1:4; for(size_t p=1;p<cipher.size()&&p<c2.size();p+=step){ std::string m=cipher.substr(0,p)+c2.substr(p); if(m!=cipher&&m!=c2) try_cookie(w,"C"+b64url::encode(m),tag+" splice@"+std::to_string(p)+" with#"+std::to_string(vj)); std::string m2=cipher.substr(0,p)+c2.substr(c2.size()-std::min(c2.size(),cipher.size()-p)); if(m2!=cipher&&m2!=c2) try_cookie(w,"C"+b64url::encode(m2),tag+" tail-splice@"+std::to_string(p)); vf::guard("splices"); } } }
	// specials
	{ const char *sp[]={"","C","CA","CAA","I0123456789abcdef0123456789abcdef","Ixyz","D","c","C=","C ","C%00","CAAAAAAAAAAAAAAAAAAAAAAAAAAAAAAAAAAAAAAAAAAAAAAAAAAAAAAAAAAAAAAAAAAAAAAAAAA"}; for(size_t i=0;i<sizeof(sp)/sizeof(*sp);i++) try_cookie(w,sp[i],cfg.label+" special#"+std::to_string(i)); for(size_t n=1;n<=40;n++){ try_cookie(w,"C"+std::string(n,'A'),cfg.label+" C+"+std::to_string(n)+"xA"); try_cookie(w,"C"+std::string(n,'_'),cfg.label+" C+"+std::to_string(n)+"x_"); vf::guard("text_length_classes"); } std::string zeros(200,'\0'); for(size_t n=0;n<200;n+=7) try_cookie(w,"C"+b64url::encode(zeros.substr(0,n)),cfg.label+" zeros"); }
	// transplant: cookies issued under other key material / algorithms
	for(size_t k=0;k<all.size();k++){ if(all[k].label==cfg.label) continue; std::unique_ptr<sessions::encryptor_factory> f2=all[k].make(all[k]); sessions::session_cookies other(f2->get()); for(int v=0;v<2;v++){ Jar jar; session_interface si(pool,jar); other.save(si,payload(17,v),g_now+100,false,false); try_cookie(w,si.temp_cookie_,cfg.label+" transplant-from "+all[k].label); vf::guard("transplants"); } }
	{ Cfg same=cfg; same.salt+=100; std::unique_ptr<sessions::encryptor_factory> f2=same.make(same); sessions::session_cookies other(f2->get()); Jar jar; session_interface si(pool,jar); other.save(si,payload(17,0),g_now+100,false,false); try_cookie(w,si.temp_cookie_,cfg.label+" transplant-from same algorithm, other key"); }
	// key sensitivity: EVERY byte of the key material matters - a cookie issued under the configured key must be refused by the same configuration with any single
	// key byte changed (and a cookie issued under the changed key must be refused here)
	{ std::string k1=hexkey(cfg.klen,cfg.salt), k2= cfg.algo2.empty()?std::string():hexkey(cfg.klen2,cfg.salt+1); for(int which=0;which<(k2.empty()?1:2);which++){ const std::string &base= which?k2:k1; for(size_t byte=0;byte*2<base.size();byte++){ Cfg other=cfg; std::string m=base; m[byte*2]= m[byte*2]=='0'?'1':'0'; if(which) other.key2_override=m; else other.key_override=m; std::unique_ptr<sessions::encryptor_factory> f2; try{ f2=other.make(other); }catch(std::exception const &){ continue; }
			sessions::session_cookies oc(f2->get()); Jar jar; session_interface si(pool,jar); oc.save(si,payload(40,3),g_now+100,false,false); try_cookie(w,si.temp_cookie_,cfg.label+" cookie made with key byte "+std::to_string(byte)+(which?" of the second key":"")+" changed");
			{ Jar j2; j2.value=valid.empty()?std::string():valid[0]; session_interface s2(pool,j2); std::string d2="UNTOUCHED"; time_t e2=0; bool ok2=false; try{ ok2=oc.load(s2,d2,e2); }catch(std::exception const &){} if(ok2) bad("load:other-key-accepts:"+cfg.label,"a cookie issued under the configured key is accepted by the same configuration with one key byte changed","key byte "+std::to_string(byte)+(which?" of the second key":"")); }
			vf::guard("key_byte_variants"); } } }
	// encryptor-level tamper
	for(size_t ci=0;ci<ciphers.size();ci+=(th?1:2)){ const std::string &c=ciphers[ci]; std::string tag=cfg.label+" cipher#"+std::to_string(ci); try_cipher(w,c,tag+" unchanged"); for(size_t bit=0;bit<c.size()*8;bit++){ std::string m=c; m[bit/8]^=(char)(1<<(bit%8)); try_cipher(w,m,tag+" bitflip"); } for(size_t n=0;n<c.size();n++) try_cipher(w,c.substr(0,n),tag+" truncated"); for(int ext=1;ext<=17;ext++) try_cipher(w,c+std::string(ext,'\0'),tag+" extended"); try_cipher(w,"",tag+" empty"); }
	vf::guard("accepted",n_accept); vf::guard("rejected",n_reject); n_accept=n_reject=0; vf::outcome(cfg.label); }

// ---- an encrypting backend as a state machine -------------------------------------------------------------------------
// Every sequence of <= depth operations {encrypt(p1), encrypt(p2), decrypt(x0), decrypt(x1), decrypt(damaged)} on ONE encryptor
// (a fresh encryptor per sequence; x0/x1 are valid cipher texts of another encryptor with the same key, as in "load the
// incoming cookie, then save"). Necessary conditions for "reveals neither the payload nor whether two payloads are equal":
// over ALL encrypt calls of ALL sequences the first cipher block (the per-message IV) never repeats, so no two cipher texts
// are equal or share a prefix; every cipher text decrypts back; decrypt results do not depend on what happened before.
static void encryptor_sequences(const Cfg &cfg,int depth){ std::unique_ptr<sessions::encryptor_factory> fac=cfg.make(cfg); std::string p1=payload(20,1),p2=payload(33,2); std::string x0,x1; { std::unique_ptr<sessions::encryptor> e0=fac->get(); x0=e0->encrypt(payload(5,3)); x1=e0->encrypt(p1); } std::string dmg=x0; dmg[dmg.size()/2]^=1;
	const char *opn[]={"encrypt(p1)","encrypt(p2)","decrypt(x0)","decrypt(x1)","decrypt(damaged)"}; std::map<std::string,std::string> first_block; /* first 16 bytes -> sequence that produced it */ std::vector<int> cur; uint64_t nseq=0;
	std::function<void()> run=[&](){ std::unique_ptr<sessions::encryptor> e=fac->get(); std::string name; for(size_t i=0;i<cur.size();i++){ if(i) name+=","; name+=opn[cur[i]]; } vf::announce("encryptor-seq "+cfg.label+" "+name); vf::eval(); nseq++;
		for(size_t i=0;i<cur.size();i++){ bool last=(i+1==cur.size()); int op=cur[i];
			if(op<=1){ const std::string &p=op?p2:p1; std::string c=e->encrypt(p); if(!last) continue; /* earlier calls of this sequence were checked when they were the last call of the shorter sequence - but on another encryptor; check them all the same */
				std::string fb=c.substr(0,16); std::map<std::string,std::string>::iterator f=first_block.find(fb); if(f!=first_block.end()) bad("secrecy:iv-reuse:"+cfg.label,"two encrypt calls produce cipher texts with the same first block (the IV is not fresh): sequence ["+name+"] and sequence ["+f->second+"]"+(c.size()>=32?"":""),"seq="+name); else first_block[fb]=name;
				std::string back; std::unique_ptr<sessions::encryptor> d=fac->get(); if(!d->decrypt(c,back)||back!=p) bad("encryptor:seq-roundtrip:"+cfg.label,"a cipher text produced after sequence ["+name+"] does not decrypt to its payload","seq="+name); vf::guard("encryptor_sequence_encrypts"); }
			else { const std::string &x= op==2?x0:op==3?x1:dmg; std::string out="UNTOUCHED"; bool ok=e->decrypt(x,out); bool want_ok=op!=4; std::string want= op==2?payload(5,3):p1; if(ok!=want_ok||(ok&&out!=want)) bad("encryptor:seq-decrypt:"+cfg.label,"decrypt gives another result after sequence ["+name+"]","seq="+name); } } };
	/* by increasing length, so that the first collision reported is between shortest sequences */ for(int len=1;len<=depth;len++){ std::function<void(int)> rec=[&](int d){ if(d==len){ run(); return; } for(int o=0;o<5;o++){ cur.push_back(o); rec(d+1); cur.pop_back(); } }; rec(0); }
	vf::guard("encryptor_sequences",nseq); { vf::sample("{\"config\":"+vf::jstr(cfg.label)+",\"encryptor_sequences\":"+std::to_string(nseq)+",\"distinct_first_blocks\":"+std::to_string(first_block.size())+"}",30); } }

static void config_refusals(){ // keys shorter than 16 bytes and encryption without MAC must be refused
	vf::eval(); bool threw=false; try{ sessions::impl::hmac_factory f("sha1",crypto::key(hexkey(15,0))); std::unique_ptr<sessions::encryptor> e=f.get(); }catch(std::exception const &){ threw=true; } if(!threw) bad("config:short-key-accepted","a 15-byte HMAC key is accepted","hmac-sha1 key15"); else vf::guard("config_refusals");
	{ json::value s; s["session"]["location"]="client"; s["session"]["client"]["cbc"]="aes"; s["session"]["client"]["cbc_key"]=hexkey(16,0); bool t=false; try{ session_pool p(s); p.init(); }catch(std::exception const &){ t=true; } if(!t) bad("config:cbc-without-mac","encryption without MAC is accepted by session_pool","cbc only"); else vf::guard("config_refusals"); }
	{ json::value s; s["session"]["location"]="client"; bool t=false; try{ session_pool p(s); p.init(); }catch(std::exception const &){ t=true; } if(!t) bad("config:no-encryptor","client storage without any encryption method is accepted","none"); else vf::guard("config_refusals"); }
	{ json::value s; s["session"]["location"]="client"; s["session"]["client"]["encryptor"]="hmac"; s["session"]["client"]["key"]=hexkey(8,0); bool t=false; try{ session_pool p(s); p.init(); Jar j; session_interface si(p,j); si.load(); si.set("a","b"); si.save(); }catch(std::exception const &){ t=true; } if(!t) bad("config:short-key-accepted-pool","an 8-byte key is accepted through the session_pool configuration","hmac key8"); else vf::guard("config_refusals"); } }

int main(int argc,char **argv){ vf::init(argc,argv,"C05","fault_enumeration"); bool th=true; bool big=vf::thorough(); std::vector<Cfg> cfgs=configs(th); (void)big;
	vf::C().rule="per key configuration: 13 key configurations (hmac-md5/sha1/sha224/sha256/sha384/sha512 with key lengths 16..129, aes128/192/256 with derived, combined and split keys); 3 cookies for each of 12 payload lengths 0..255 (thorough: + 1000, 4096) + an expiry grid {now-1, now, now+1} under a virtual clock; for the cookies: every single-bit flip of the decoded cipher text, every truncation, head cuts, extensions/prefixes by 1..17 bytes of 00/ff, every 16-byte block copy/swap/duplication, every single-character substitution of the cookie text by 69 characters, every single-character deletion, insertion of 4 characters at every (3rd) position, appending 1..6 characters, 'C'+n characters for n = 1..40, byte-granular splices with other valid cookies, transplants from every other configuration, from the same algorithm under another key and under the same key with EACH single key byte changed (both directions), specials; the same at encryptor::decrypt level; for the AES configurations every sequence of <= 5 (6) operations {encrypt(p1), encrypt(p2), decrypt(valid x0), decrypt(valid x1), decrypt(damaged)} on one encryptor: first cipher blocks pairwise distinct over all encrypt calls of all sequences, round trip, decrypt verdicts independent of history. distinct = key configurations (each a different code path: digest, key derivation, split keys); all non-trivial";
	vf::assume("'decodes to' is defined by b64url::decode (whose exactness is C15's subject): text differing only in unused trailing bits or in characters the decoder maps to the same sextet is the same cipher text"); vf::assume("secrecy is a cryptographic claim enumeration cannot decide: only necessary conditions are checked (a fresh first cipher block for every encrypt call over all operation sequences on an encryptor, equal lengths for equal payload lengths, no 4-byte plaintext window in the cipher text)"); vf::assume("at expiry == now either verdict is accepted"); vf::assume("a sub-pass repeats four configurations (reduced tamper set) with the clock in 2039 (time_t beyond 2^31)");
	if(!vf::C().replay_file.empty()) printf("replay: C05 cases are deterministic functions of the configuration (entropy only affects AES IVs); re-running the quick tier reproduces them\n");
	if(vf::C().pass=="epoch2039"){ // four configurations again with the clock beyond 2^31 seconds (year 2039): the expiry travels inside the cookie
		g_T0=(time_t)2200000000LL; vf::parallel(4,4,[&](int i){ json::value s; s["session"]["location"]="client"; s["session"]["client"]["encryptor"]="hmac"; s["session"]["client"]["key"]=hexkey(20,9); session_pool pool(s); pool.init(); run_config(cfgs[i],cfgs,pool,false); vf::guard("epoch2039_configs"); },600); return vf::finish(); }
	vf::parallel(cfgs.size()+1,16,[&](int i){ if(i==(int)cfgs.size()){ config_refusals(); return; } json::value s; s["session"]["location"]="client"; s["session"]["client"]["encryptor"]="hmac"; s["session"]["client"]["key"]=hexkey(20,9); session_pool pool(s); pool.init(); run_config(cfgs[i],cfgs,pool,th); if(cfgs[i].aes) encryptor_sequences(cfgs[i],vf::thorough()?6:5); },th?1500:250);
	vf::run_sub("asan","epoch2039");
	vf::require_guard("roundtrips"); vf::require_guard("epoch2039_configs"); vf::require_guard("bitflips"); vf::require_guard("splices"); vf::require_guard("block_ops"); vf::require_guard("char_substitutions"); vf::require_guard("char_deletions"); vf::require_guard("char_insertions"); vf::require_guard("text_extensions"); vf::require_guard("text_length_classes"); vf::require_guard("transplants"); vf::require_guard("key_byte_variants"); vf::require_guard("secrecy_checks"); vf::require_guard("encryptor_sequences"); vf::require_guard("encryptor_sequence_encrypts"); vf::require_guard("config_refusals"); vf::require_guard("accepted"); vf::require_guard("rejected");
	// distinct_nontrivial needs >=2: each configuration is one
	return vf::finish(); }
