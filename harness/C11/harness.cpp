// C11 - JSON parsing accepts all well-formed documents; serialization round-trips.
// Exhaustive enumeration of all strings over a character alphabet and all token sequences up to a length,
// all escape forms / bytes inside strings, a number grid, nesting depths around the bound, all value trees
// up to depth 3 for the round trip, and typed extraction. Oracle: a strict RFC 8259 recogniser + tree
// builder written here.
#include "vf.h"
#include <cppcms/json.h>
#include <cmath>
#include <cfloat>
#include <climits>
#include <locale>
#include <limits>

using namespace cppcms;

// ---------------- strict reference parser ------------------------------------------------------
struct Node { int t; /*0 null 1 bool 2 num 3 str 4 arr 5 obj*/ bool b; double d; std::string s; std::vector<Node> a; std::vector<std::pair<std::string,Node> > o; Node():t(0),b(false),d(0){} };
static int utf8_len(const unsigned char *p,size_t n){ if(n==0) return 0; unsigned char a=p[0]; if(a<=0x7F) return 1;
	#define TL(x) ((x)>=0x80&&(x)<=0xBF)
	if(a>=0xC2&&a<=0xDF) return (n>=2&&TL(p[1]))?2:0;
	if(a>=0xE0&&a<=0xEF){ if(n<3) return 0; unsigned char b=p[1]; bool ok= a==0xE0?(b>=0xA0&&b<=0xBF): a==0xED?(b>=0x80&&b<=0x9F):TL(b); return (ok&&TL(p[2]))?3:0; }
	if(a>=0xF0&&a<=0xF4){ if(n<4) return 0; unsigned char b=p[1]; bool ok= a==0xF0?(b>=0x90&&b<=0xBF): a==0xF4?(b>=0x80&&b<=0x8F):TL(b); return (ok&&TL(p[2])&&TL(p[3]))?4:0; }
	return 0; }
static bool valid_utf8(const std::string &s){ size_t i=0; while(i<s.size()){ int l=utf8_len((const unsigned char*)s.data()+i,s.size()-i); if(!l) return false; i+=l; } return true; }
static void put_utf8(std::string &o,uint32_t c){ if(c<0x80) o+=(char)c; else if(c<0x800){ o+=(char)(0xC0|(c>>6)); o+=(char)(0x80|(c&63)); } else if(c<0x10000){ o+=(char)(0xE0|(c>>12)); o+=(char)(0x80|((c>>6)&63)); o+=(char)(0x80|(c&63)); } else { o+=(char)(0xF0|(c>>18)); o+=(char)(0x80|((c>>12)&63)); o+=(char)(0x80|((c>>6)&63)); o+=(char)(0x80|(c&63)); } }
struct RefParser { const char *p,*e; int maxdepth; bool dup,nonfinite; RefParser(const std::string &s):p(s.data()),e(s.data()+s.size()),maxdepth(0),dup(false),nonfinite(false){}
	void ws(){ while(p<e&&(*p==' '||*p=='\t'||*p=='\n'||*p=='\r')) p++; }
	bool hex4(unsigned &v){ if(e-p<4) return false; v=0; for(int i=0;i<4;i++){ char c=p[i]; int d= c>='0'&&c<='9'?c-'0': c>='a'&&c<='f'?c-'a'+10: c>='A'&&c<='F'?c-'A'+10:-1; if(d<0) return false; v=v*16+d; } p+=4; return true; }
	bool str(std::string &out){ if(p>=e||*p!='"') return false; p++; out.clear(); for(;;){ if(p>=e) return false; unsigned char c=*p; if(c=='"'){ p++; return true; } if(c<0x20) return false;
			if(c=='\\'){ p++; if(p>=e) return false; char x=*p++; switch(x){ case '"':out+='"';break; case '\\':out+='\\';break; case '/':out+='/';break; case 'b':out+='\b';break; case 'f':out+='\f';break; case 'n':out+='\n';break; case 'r':out+='\r';break; case 't':out+='\t';break;
				case 'u':{ unsigned v; if(!hex4(v)) return false; if(v>=0xD800&&v<=0xDBFF){ if(e-p<2||p[0]!='\\'||p[1]!='u') return false; p+=2; unsigned w; if(!hex4(w)||w<0xDC00||w>0xDFFF) return false; put_utf8(out,0x10000+(((v&0x3FF)<<10)|(w&0x3FF))); } else if(v>=0xDC00&&v<=0xDFFF) return false; else put_utf8(out,v); break; }
				default: return false; } }
			else { int l=utf8_len((const unsigned char*)p,e-p); if(!l) return false; out.append(p,l); p+=l; } } }
	bool num(double &d){ const char *s=p; if(p<e&&*p=='-') p++; if(p>=e) return false; if(*p=='0') p++; else if(*p>='1'&&*p<='9'){ while(p<e&&*p>='0'&&*p<='9') p++; } else return false;
		if(p<e&&*p=='.'){ p++; if(p>=e||*p<'0'||*p>'9') return false; while(p<e&&*p>='0'&&*p<='9') p++; }
		if(p<e&&(*p=='e'||*p=='E')){ p++; if(p<e&&(*p=='+'||*p=='-')) p++; if(p>=e||*p<'0'||*p>'9') return false; while(p<e&&*p>='0'&&*p<='9') p++; }
		std::string t(s,p); d=strtod(t.c_str(),0); if(std::isinf(d)) nonfinite=true; return true; }
	bool val(Node &n,int depth){ ws(); if(p>=e) return false; char c=*p;
		if(c=='['){ if(depth+1>maxdepth) maxdepth=depth+1; n.t=4; p++; ws(); if(p<e&&*p==']'){ p++; return true; } for(;;){ n.a.push_back(Node()); if(!val(n.a.back(),depth+1)) return false; ws(); if(p>=e) return false; if(*p==','){ p++; continue; } if(*p==']'){ p++; return true; } return false; } }
		if(c=='{'){ if(depth+1>maxdepth) maxdepth=depth+1; n.t=5; p++; ws(); if(p<e&&*p=='}'){ p++; return true; } for(;;){ ws(); std::string k; if(!str(k)) return false; ws(); if(p>=e||*p!=':') return false; p++; for(size_t i=0;i<n.o.size();i++) if(n.o[i].first==k) dup=true; n.o.push_back(std::make_pair(k,Node())); if(!val(n.o.back().second,depth+1)) return false; ws(); if(p>=e) return false; if(*p==','){ p++; continue; } if(*p=='}'){ p++; return true; } return false; } }
		if(c=='"'){ n.t=3; return str(n.s); }
		if(c=='t'){ if(e-p>=4&&!memcmp(p,"true",4)){ p+=4; n.t=1; n.b=true; return true; } return false; }
		if(c=='f'){ if(e-p>=5&&!memcmp(p,"false",5)){ p+=5; n.t=1; n.b=false; return true; } return false; }
		if(c=='n'){ if(e-p>=4&&!memcmp(p,"null",4)){ p+=4; n.t=0; return true; } return false; }
		if(c=='-'||(c>='0'&&c<='9')){ n.t=2; return num(n.d); }
		return false; }
	bool doc(Node &n){ if(!val(n,0)) return false; ws(); return p==e; } };
static bool same(const Node &n,const json::value &v,std::string &why){ switch(n.t){
	case 0: if(v.type()!=json::is_null){ why="null expected"; return false;} return true;
	case 1: if(v.type()!=json::is_boolean||v.boolean()!=n.b){ why="boolean differs"; return false;} return true;
	case 2: if(v.type()!=json::is_number){ why="number expected"; return false;} if(memcmp(&n.d,&v.number(),8)&&!(n.d==0&&v.number()==0)){ char b[100]; snprintf(b,100,"number %.17g parsed as %.17g",n.d,v.number()); why=b; return false;} return true;
	case 3: if(v.type()!=json::is_string||v.str()!=n.s){ why="string differs"; return false;} return true;
	case 4: { if(v.type()!=json::is_array||v.array().size()!=n.a.size()){ why="array size/type differs"; return false;} for(size_t i=0;i<n.a.size();i++) if(!same(n.a[i],v.array()[i],why)) return false; return true; }
	default: { if(v.type()!=json::is_object||v.object().size()!=n.o.size()){ why="object size/type differs"; return false;} for(size_t i=0;i<n.o.size();i++){ json::object::const_iterator it=v.object().find(n.o[i].first); if(it==v.object().end()){ why="key missing"; return false;} if(!same(n.o[i].second,it->second,why)) return false; } return true; } } }
// post-conditions of any accepted parse
static int check_tree(const json::value &v,int depth,bool &utf_ok){ int m=depth; switch(v.type()){ case json::is_string: if(!valid_utf8(v.str())) utf_ok=false; break;
	case json::is_array: m=depth+1; for(size_t i=0;i<v.array().size();i++) m=std::max(m,check_tree(v.array()[i],depth+1,utf_ok)); break;
	case json::is_object: m=depth+1; for(json::object::const_iterator i=v.object().begin();i!=v.object().end();++i){ if(!valid_utf8(i->first.str())) utf_ok=false; m=std::max(m,check_tree(i->second,depth+1,utf_ok)); } break; default: break; } return m; }

static void bad(const std::string &sig,const std::string &what,const std::string &in){ vf::violation(sig,what+" (input "+vf::vis(in.substr(0,120))+")","\"op\":"+vf::jstr(sig)+",\"input_hex\":"+vf::jstr(vf::hex(in.size()>4000?in.substr(0,4000):in))+",\"input_len\":"+std::to_string(in.size())); }
static json::value sentinel(){ json::value s; s["sentinel"][0]=42; s["sentinel"][1]="x"; return s; }
static uint64_t n_acc=0,n_rej=0,n_strict=0,n_superset=0;
static const bool *g_count_outcomes=0;
// parse one document through value::load(char const*&,...) and check every clause
static int parse_case(const std::string &doc,bool outcomes=true){ vf::eval();
	static const json::value sent=sentinel(); json::value v=sent; const char *b=doc.data(); bool ok=v.load(b,doc.data()+doc.size(),true);
	Node n; RefParser rp(doc); bool strict=rp.doc(n)&&!rp.dup&&!rp.nonfinite&&rp.maxdepth<=512;
	if(strict){ n_strict++; if(!ok){ bad("json:reject-valid","a well-formed RFC 8259 document (unique keys, finite numbers, paired surrogates, depth<=512) is rejected",doc); return 0; } std::string why; if(!same(n,v,why)){ bad("json:tree-differs","accepted document yields a different tree: "+why,doc); return 1; } }
	if(ok){ n_acc++; bool u=true; int d=check_tree(v,0,u); if(!u) bad("json:invalid-utf8-accepted","accepted document yields a string that is not valid UTF-8",doc); if(d>512) bad("json:depth","accepted document nests deeper than 512",doc); if(!strict) n_superset++; }
	else { n_rej++; if(!(v==sent)) bad("json:target-modified","a failed parse modified the target value",doc); }
	if(outcomes&&(ok||doc.size()>=3)){ static uint64_t sc=0; if(vf::sample_tick(sc,ok?211:40013)) vf::sample("{\"document\":"+vf::jstr(vf::vis(doc.substr(0,60)))+",\"strict_rfc8259\":"+(strict?"true":"false")+",\"accepted\":"+(ok?"true":"false")+"}",8); }
	if(outcomes) vf::outcome(std::string(ok?"A":"R")+(strict?"s":"n")+":"+(ok?v.save().substr(0,24):"")); return ok?1:0; }
static void flush_counts(){ vf::guard("accepted",n_acc); vf::guard("rejected",n_rej); vf::guard("strict_valid_documents",n_strict); vf::guard("accepted_superset",n_superset); n_acc=n_rej=n_strict=n_superset=0; }

template<class F> void all_seq(const std::vector<std::string> &alpha,int maxlen,int sh,int n,F f){ std::string cur; uint64_t idx=0; std::function<void(int)> rec=[&](int d){ if((idx++%n)==(uint64_t)sh) f(cur); if(d==maxlen) return; for(size_t i=0;i<alpha.size();i++){ size_t l=cur.size(); cur+=alpha[i]; rec(d+1); cur.resize(l);} }; rec(0); }
static std::vector<std::string> chars(){ const char *c[]={"[","]","{","}",":",",","\"","\\","u","0","1","-",".","e","t","a"," ","\xc3"}; return std::vector<std::string>(c,c+18); }
static std::vector<std::string> toks(){ const char *c[]={"[","]","{","}",":",",","\"k\"","\"j\"","1","-0.5e1","true","null","\"\xf0\x9f\x98\x80\"","\"\\ud83d\"","\"\\u0000\"","//c\n"}; return std::vector<std::string>(c,c+16); }

// enumeration pass (also run in the rel flavour with larger bounds)
static void enum_pass(int sh,int n,int clen,int tlen,bool outcomes){ all_seq(chars(),clen,sh,n,[&](const std::string &s){ vf::announce("chars "+vf::hex(s)); parse_case(s,outcomes&&s.size()<=4); }); all_seq(toks(),tlen,sh,n,[&](const std::string &s){ vf::announce("toks "+vf::hex(s)); parse_case(s,outcomes&&s.size()<=12); }); flush_counts(); }

static void strings_pass(int sh,int n){ int idx=0; // every byte inside quotes, every escape, every pair of \u escapes
	for(int b=0;b<256;b++){ if((idx++%n)!=sh) continue; std::string d="\""; d+=(char)b; d+="\""; parse_case(d); d="[\"a"; d+=(char)b; d+="b\"]"; parse_case(d); d="\"\\"; d+=(char)b; d+="\""; parse_case(d); d="\"\\"; d+=(char)b; d+="0041\""; parse_case(d); for(int c=0;c<256;c+=1){ std::string e="\""; e+=(char)b; e+=(char)c; e+="\""; parse_case(e,false); } }
	const char *u[]={"0041","D800","DBFF","DC00","DFFF","FFFF","d83d","de00","00e9","0000","007f","001f","004","00g1","+041"};
	for(int i=0;i<15;i++) for(int j=0;j<15;j++){ if((idx++%n)!=sh) continue; std::string d="\"\\u"; d+=u[i]; d+="\\u"; d+=u[j]; d+="\""; parse_case(d); d=std::string("\"\\u")+u[i]+"x\\u"+u[j]+"\""; parse_case(d); d=std::string("\"\\u")+u[i]+"\\n\\u"+u[j]+"\""; parse_case(d); d=std::string("{\"\\u")+u[i]+"\":1,\"\\u"+u[j]+"\":2}"; parse_case(d); }
	flush_counts(); vf::guard("string_cases"); }
static void numbers_pass(int sh,int n){ const char *sign[]={"","-"}; const char *ip[]={"0","1","10","9007199254740991","9007199254740992","9007199254740993","123456789012345678901","4","179769313486231570000"}; const char *fr[]={"",".0",".5",".00000000000000000001",".1",".3333333333333333"}; const char *ex[]={"","e0","E+308","e309","e-324","e-400","e-308","E-323","e1","e+15","e22","e23"}; int idx=0;
	for(int s=0;s<2;s++) for(int i=0;i<9;i++) for(int f=0;f<6;f++) for(int x=0;x<12;x++){ if((idx++%n)!=sh) continue; std::string t=std::string(sign[s])+ip[i]+fr[f]+ex[x]; parse_case(t); parse_case("["+t+"]"); parse_case("{\"k\":"+t+" }"); parse_case(" "+t+"\n"); vf::guard("number_cases"); }
	const char *malformed[]={"-","1.",".5","1e","01","+1","1e+","--1","1.e1","0x10","1e1.5","-a","1a","Infinity","NaN","-Infinity","1,","00","-01","1.5.5","1ee1","2e","0e","-0","-0.0","0e0","1E-0"};
	for(size_t i=0;i<sizeof(malformed)/sizeof(*malformed);i++){ if((idx++%n)!=sh) continue; parse_case(malformed[i]); parse_case(std::string("[")+malformed[i]+"]"); parse_case(std::string("[1,")+malformed[i]+",2]"); }
	flush_counts(); }
static void depth_pass(int sh,int n){ int idx=0; int depths[]={0,1,2,3,4,5,6,7,8,505,506,507,508,509,510,511,512,513,514,515,516,517,518,519,520,600};
	for(size_t i=0;i<sizeof(depths)/sizeof(int);i++) for(int kind=0;kind<4;kind++){ if((idx++%n)!=sh) continue; int d=depths[i]; std::string open,close; for(int k=0;k<d;k++){ bool arr= kind==0||(kind==2&&k%2==0)||(kind==3&&k%2==1); if(kind==1) arr=false; if(arr){ open+="["; close="]"+close; } else { open+="{\"k\":"; close="}"+close; } }
		std::string doc=open+"1"+close; int r=parse_case(doc); if(d<=512) vf::guard("depth_within_bound"); else { vf::guard("depth_beyond_bound"); if(r) bad("json:depth-accepted","document nested deeper than the bound is accepted",doc); }
		if(d>0){ std::string empty=open.substr(0,open.size())+close; /* innermost scalar removed only valid for arrays */ if(kind==0){ std::string e2; for(int k=0;k<d;k++) e2+="["; for(int k=0;k<d;k++) e2+="]"; int r2=parse_case(e2); if(d>512&&r2) bad("json:depth-accepted","empty arrays nested deeper than the bound are accepted",e2); } } }
	flush_counts(); }

// ---------------- round trip -------------------------------------------------------------------
struct group_punct : std::numpunct<char> { char do_decimal_point() const { return '.'; } char do_thousands_sep() const { return ','; } std::string do_grouping() const { return "\3"; } }; /* en_US-like: the decimal point is the JSON one, but digits are grouped */
struct comma_punct : std::numpunct<char> { char do_decimal_point() const { return ','; } char do_thousands_sep() const { return '.'; } std::string do_grouping() const { return "\3"; } };
static std::vector<json::value> atoms(){ std::vector<json::value> a; json::value v; v=json::null(); a.push_back(v); v=true; a.push_back(v); v=false; a.push_back(v); double nums[]={0,-1.5,0.1,1.0/3,1e21,5e-324,DBL_MAX,-DBL_MIN,123456789.0,1e15,1e16,2.2250738585072014e-308,1234567.125,-0.0}; for(size_t i=0;i<sizeof(nums)/8;i++){ v=nums[i]; a.push_back(v); }
	v=""; a.push_back(v); v="a"; a.push_back(v); v=std::string("\"\\\x01\x7f\x1f/\b\f\n\r\t"); a.push_back(v); v="\xc3\xa9\xe2\x82\xac\xf0\x9f\x98\x80"; a.push_back(v); v=std::string("nu\0l",4); a.push_back(v); v=json::array(); a.push_back(v); v=json::object(); a.push_back(v); return a; }
static bool approx_equal(const json::value &a,const json::value &b,std::string &why){ if(a.type()!=b.type()){ why="type differs"; return false; } switch(a.type()){ case json::is_number:{ double x=a.number(),y=b.number(); if(x==y) return true; double tol=std::fabs(x)*1e-15; if(std::fabs(x-y)<=tol) return true; char buf[120]; snprintf(buf,120,"number %.17g came back as %.17g",x,y); why=buf; return false; }
	case json::is_array: if(a.array().size()!=b.array().size()){ why="array size"; return false;} for(size_t i=0;i<a.array().size();i++) if(!approx_equal(a.array()[i],b.array()[i],why)) return false; return true;
	case json::is_object:{ if(a.object().size()!=b.object().size()){ why="object size"; return false;} json::object::const_iterator i=a.object().begin(),j=b.object().begin(); for(;i!=a.object().end();++i,++j){ if(i->first.str()!=j->first.str()){ why="key differs"; return false;} if(!approx_equal(i->second,j->second,why)) return false; } return true; }
	default: if(!(a==b)){ why="scalar differs"; return false;} return true; } }
// does the tree hold a finite number whose 16-significant-digit decimal rendering exceeds DBL_MAX?
static bool has_16digit_overflow(const json::value &v){ switch(v.type()){ case json::is_number:{ char b[64]; snprintf(b,64,"%.16g",v.number()); double y=strtod(b,0); return std::isfinite(v.number())&&std::isinf(y); }
	case json::is_array: for(size_t i=0;i<v.array().size();i++) if(has_16digit_overflow(v.array()[i])) return true; return false;
	case json::is_object: for(json::object::const_iterator i=v.object().begin();i!=v.object().end();++i) if(has_16digit_overflow(i->second)) return true; return false; default: return false; } }
static void roundtrip_case(const json::value &v){ static std::locale comma_l(std::locale::classic(),new comma_punct()); static std::locale group_l(std::locale::classic(),new group_punct()); for(int which=0;which<2;which++){ const std::locale &comma= which?group_l:comma_l; /* both locale families through the same three situations */
	// loc: 0 = classic locale, 1 = the stream is imbued with a locale using ',' as decimal point and '.' grouping, 2 = that locale is the process-GLOBAL one (every
	// stream the library creates internally picks it up)
	struct GlobalGuard { std::locale old; bool on; GlobalGuard():on(false){} void set(const std::locale &l){ old=std::locale::global(l); on=true; } ~GlobalGuard(){ if(on) std::locale::global(old); } };
	for(int how=0;how<2;how++) for(int loc=0;loc<3;loc++){ GlobalGuard gg; if(loc==2) gg.set(comma); vf::eval(); std::ostringstream o; if(loc==1) o.imbue(comma); v.save(o,how?json::readable:json::compact); std::string text=o.str(); vf::announce("roundtrip "+vf::hex(text.substr(0,1500)));
		if(loc){ std::string t0=v.save(how?json::readable:json::compact); if(t0!=text) bad("json:locale-dependent-output","serialization depends on the stream locale: "+vf::vis(text.substr(0,80)),t0); std::ostringstream chk; chk.imbue(comma); chk<<1234.5; if(o.getloc()!=comma) bad("json:locale-not-restored","stream locale not restored after save","" ); }
		json::value v2; std::istringstream in(text); if(loc==1) in.imbue(comma); if(!v2.load(in,true)){ if(has_16digit_overflow(v)) bad("json:roundtrip-reject:16-digit-rendering-overflows","serialized text does not parse back: a finite number within half a unit of the 16th digit below DBL_MAX is printed as a decimal that exceeds DBL_MAX",text); else bad("json:roundtrip-reject","serialized text does not parse back",text); continue; }
		std::string why; if(!approx_equal(v,v2,why)) { bad("json:roundtrip-value","serialized text parses back to a different value: "+why,text); continue; }
		{ Node n; RefParser rp(text); if(!rp.doc(n)||rp.dup) bad("json:output-not-strict","serialized text is not a strict RFC 8259 document",text); }
		std::string t2=v2.save(how?json::readable:json::compact); json::value v3; { const char *b=t2.data(); if(!v3.load(b,t2.data()+t2.size(),true)||!(v3==v2)) bad("json:second-round","second round trip is not exact",t2); }
		{ std::stringstream ss; if(loc==1) ss.imbue(comma); ss<<v; json::value v4; ss>>v4; if(!ss&&has_16digit_overflow(v)) bad("json:roundtrip-reject:16-digit-rendering-overflows","operator<< text does not parse back (same cause)",text); else if(!ss||!approx_equal(v,v4,why)) bad("json:stream-operators","operator<< then operator>> does not round-trip: "+why,text); }
		if(loc==2) vf::guard("roundtrips_under_global_locale"); if(which&&loc) vf::guard("roundtrips_under_grouping_locale"); vf::outcome("rt:"+text.substr(0,40)); vf::guard("roundtrips"); } } }
static void roundtrip_pass(int sh,int n){ std::vector<json::value> a=atoms(); std::vector<json::value> l2; uint64_t idx=0; // depth<=2 trees
	l2=a; for(size_t i=0;i<a.size();i++){ json::value v; v[0]=a[i]; l2.push_back(v); json::value o; o["k"]=a[i]; l2.push_back(o); } for(size_t i=0;i<a.size();i++) for(size_t j=0;j<a.size();j++){ json::value v; v[0]=a[i]; v[1]=a[j]; l2.push_back(v); json::value o; o["a"]=a[i]; o[std::string("b\"\xc3\xa9")]=a[j]; l2.push_back(o); }
	for(size_t i=0;i<l2.size();i++) if((idx++%n)==(uint64_t)sh) roundtrip_case(l2[i]);
	// depth 3: every depth-2 tree as single child; pairs over a subset (thorough: bigger subset)
	for(size_t i=0;i<l2.size();i++){ if((idx++%n)!=(uint64_t)sh) continue; json::value v; v[0]=l2[i]; roundtrip_case(v); json::value o; o["x"]=l2[i]; roundtrip_case(o); }
	size_t step=vf::thorough()?7:41; for(size_t i=0;i<l2.size();i+=step) for(size_t j=0;j<l2.size();j+=step){ if((idx++%n)!=(uint64_t)sh) continue; json::value v; v[0]=l2[i]; v[1]=l2[j]; roundtrip_case(v); json::value o; o["p"]=l2[i]; o["q"]=l2[j]; roundtrip_case(o); }
	// deep value
	if(sh==0){ json::value d=1; for(int k=0;k<300;k++){ json::value w; if(k%2) w[0]=d; else w["k"]=d; d.swap(w);} roundtrip_case(d); } }

// ---------------- typed extraction ----------------------------------------------------------------
template<class T> void extract_int(const char *name){ long double lo=std::numeric_limits<T>::min(),hi=std::numeric_limits<T>::max(); double cand[]={(double)lo-1,(double)lo,(double)lo+1,-1,-0.5,0,0.5,1,127,128,255,256,32767,32768,65535,65536,(double)hi-1,(double)hi,(double)hi+1,9007199254740991.0,9007199254740992.0,9007199254740993.0,1e300,-1e300,2147483647.0,2147483648.0,-2147483648.0,-2147483649.0,4294967295.0,4294967296.0,9223372036854775807.0,9223372036854775808.0*2,-9223372036854775808.0,1.5e19,1e-300,-129,-32769};
	for(size_t i=0;i<sizeof(cand)/8;i++){ double x=cand[i]; json::value v=x; vf::eval(); bool in_range=(long double)x>=lo&&(long double)x<=hi&&x==std::floor(x); bool threw=false; T got=T(); try{ got=v.get_value<T>(); }catch(json::bad_value_cast const &){ threw=true; }
		char cs[100]; snprintf(cs,100,"%s <- %.17g",name,x);
		if(in_range){ if(threw) bad(std::string("json:extract-refused:")+name,std::string("typed extraction of an in-range integral number throws: ")+cs,cs); else if((long double)got!=(long double)x) bad(std::string("json:extract-wrong:")+name,std::string("typed extraction returns another number: ")+cs,cs); vf::guard("extract_exact"); }
		else { if(!threw) bad(std::string("json:extract-inexact:")+name,std::string("typed extraction of a number the type cannot hold exactly does not throw: ")+cs+" gave "+std::to_string((long double)got),cs); vf::guard("extract_throws"); }
		vf::outcome(std::string("ex:")+cs+(threw?"T":"V")); } }
static void extract_pass(){ extract_int<char>("char"); extract_int<signed char>("signed char"); extract_int<unsigned char>("unsigned char"); extract_int<short>("short"); extract_int<unsigned short>("unsigned short"); extract_int<int>("int"); extract_int<unsigned int>("unsigned int"); extract_int<long>("long"); extract_int<unsigned long>("unsigned long"); extract_int<long long>("long long"); extract_int<unsigned long long>("unsigned long long");
	double fc[]={0,1,-1,0.5,0.1,FLT_MAX,-FLT_MAX,(double)FLT_MAX*1.0000001,-(double)FLT_MAX*1.0000001,1e300,-1e300,1e-300,FLT_MIN,16777217.0}; for(size_t i=0;i<sizeof(fc)/8;i++){ double x=fc[i]; json::value v=x; vf::eval(); bool in=std::fabs(x)<=FLT_MAX; bool threw=false; float g=0; try{ g=v.get_value<float>(); }catch(json::bad_value_cast const &){ threw=true; } char cs[100]; snprintf(cs,100,"float <- %.17g",x);
		if(in){ if(threw) bad("json:extract-refused:float",std::string("in-range float extraction throws: ")+cs,cs); else if(g!=(float)x) bad("json:extract-wrong:float",std::string("float extraction is not the nearest float: ")+cs,cs); } else if(!threw) bad("json:extract-inexact:float",std::string("out-of-range float extraction does not throw: ")+cs,cs);
		double dg=v.get_value<double>(); if(memcmp(&dg,&x,8)) bad("json:extract-wrong:double","double extraction differs",cs); }
	{ json::value s="str"; bool t=false; try{ s.get_value<int>(); }catch(json::bad_value_cast const &){ t=true; } if(!t) bad("json:extract-type","extracting an int from a string does not throw","str"); } }

int main(int argc,char **argv){ vf::init(argc,argv,"C11","exploration"); int n=16; bool th=vf::thorough();
	if(!vf::C().replay_file.empty()){ std::ifstream f(vf::C().replay_file); std::stringstream ss; ss<<f.rdbuf(); std::string in=vf::unhex(vf::jfield(ss.str(),"input_hex")); int r=parse_case(in); printf("replayed %s -> %s\n",vf::vis(in.substr(0,200)).c_str(),r?"accepted":"rejected"); json::value v; const char *b=in.data(); if(v.load(b,in.data()+in.size(),true)) roundtrip_case(v); return vf::finish(); }
	if(vf::C().pass=="enum"){ vf::parallel(n,n,[&](int sh){ enum_pass(sh,n,th?7:6,th?7:6,false); },1500); return vf::finish(); }
	vf::C().rule=std::string("(a) every string of length <= ")+(th?"7":"6")+" over 18 characters {[ ] { } : , \" \\ u 0 1 - . e t a space 0xC3} and (b) every sequence of <= "+(th?"7":"6")+" tokens from a 16-token set (rel build; lengths <= 4 again under ASan); (c) every byte and byte pair inside quotes, every escape letter, 15x15 \\u pairs; (d) a 2x9x6x12 number grid in 4 contexts + 27 malformed numbers; (e) nesting 0..8, 505..520, 600 in 4 shapes; (f) all value trees of depth <= 2 over 24 atoms, depth 3 single-child and a pair grid, x {compact,readable} x {classic locale, stream imbued with a comma-decimal grouping locale, that locale as the process-global one}; (g) typed extraction for 11 integer types x 37 candidates, float, double. distinct = (verdict, strictness, value prefix) for parses, output text for round trips, (type,candidate,verdict) for extraction; non-trivial = all counted ones";
	vf::assume("reference: strict RFC 8259 recogniser + tree builder in harness/C11 (numbers via strtod on the exact token); acceptance of a superset (comments, leading zeros, '1.', bare scalars) is not a violation");
	vf::assume("inf/NaN have no JSON form and are not generated; float extraction is required to be the nearest float for in-range numbers");
	vf::run_sub("rel","enum");
	vf::parallel(n,n,[&](int sh){ enum_pass(sh,n,4,4,true); strings_pass(sh,n); numbers_pass(sh,n); depth_pass(sh,n); roundtrip_pass(sh,n); if(sh==0) extract_pass(); },1500);
	vf::require_guard("strict_valid_documents"); vf::require_guard("roundtrips_under_global_locale"); vf::require_guard("roundtrips_under_grouping_locale"); vf::require_guard("accepted_superset"); vf::require_guard("rejected"); vf::require_guard("depth_beyond_bound"); vf::require_guard("roundtrips"); vf::require_guard("extract_exact"); vf::require_guard("extract_throws");
	return vf::finish(); }
