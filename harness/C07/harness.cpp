// C07 - the cache never returns invalidated, expired or superseded data.
// Explicit-state search (BFS over operation histories, state = history replayed on the real cache) with a
// set-valued std::map reference model, for thread_shared and process_shared back-ends and limits 0..3; plus a no-dedup
// pass over all sequences of a fixed length; plus the cache_interface layer with nested trigger recorders.
#include "cache_bfs.h"
#include <cppcms/serialization.h>
#include <cppcms/cache_interface.h>
#include <cppcms/service.h>
#include <cppcms/json.h>

using cm::Op;
static std::vector<Op> alphabet(const std::string &ka="a",const std::string &kb="b"){ std::vector<Op> ops; std::string keys[]={ka,kb};
	for(int k=0;k<2;k++) for(int t=0;t<4;t++) for(int d=0;d<2;d++){ Op o; o.k=Op::STORE; o.key=keys[k]; if(t==1) o.trig.insert("t"); if(t==2){ o.trig.insert("t"); o.trig.insert("u"); } if(t==3) o.trig.insert(keys[1-k]); o.dl= d?-1:2; ops.push_back(o); }
	/* stores whose deadline is already past (now-1) or exactly now: they still replace whatever was under the key */ for(int k=0;k<2;k++) for(int d=0;d<2;d++){ Op o; o.k=Op::STORE; o.key=keys[k]; if(d==0) o.trig.insert("u"); o.dl= d?0:-2; ops.push_back(o); }
	for(int k=0;k<2;k++){ Op o; o.k=Op::FETCH; o.key=keys[k]; ops.push_back(o); }
	std::string tr[]={ka,kb,"t","u"}; for(int i=0;i<4;i++){ Op o; o.k=Op::RISE; o.key=tr[i]; ops.push_back(o); }
	for(int k=0;k<2;k++){ Op o; o.k=Op::REMOVE; o.key=keys[k]; ops.push_back(o); }
	{ Op o; o.k=Op::CLEAR; ops.push_back(o); } for(int n=1;n<=2;n++){ Op o; o.k=Op::TICK; o.n=n; ops.push_back(o); } { Op o; o.k=Op::STATS; ops.push_back(o); } return ops; }
// binary keys: both contain a NUL after a common first byte and have the SAME hash value (string_hash is the PJW hash: 'a'*16+0x10 == 'b'*16+0x00), so they share a
// bucket at every table size and differ only after the NUL; keys are byte strings, not C strings
static const std::string BKA("k\0a\x10",4), BKB("k\0b\0",4);
// prefix keys: one NUL and two NULs - the first is a proper prefix of the second and both hash to 0 (same bucket at every table size)
static const std::string PKA("\0",1), PKB("\0\0",2);
// cache_interface deadlines: the interface takes a timeout in seconds relative to now (negative = none). For every timeout T in {-1,0,1,2,5}, every store call of the
// interface and every clock advance D in {0,1,2,3,6}: the entry must be found while D < T, must be gone once D > T (either at D == T); T < 0 never expires.
struct IfBlob : public cppcms::serializable { std::string v; void serialize(cppcms::archive &a){ a & v; } };
static void interface_deadline_pass(){ const char *backends[]={"thread_shared","process_shared"}; for(int be=0;be<2;be++){ cppcms::json::value cfg; cfg["service"]["api"]="http"; cfg["service"]["port"]=0; cfg["service"]["disable_global_exit_handling"]=true; cfg["cache"]["backend"]=backends[be]; cfg["cache"]["limit"]=100; if(be) cfg["cache"]["memory"]=512; cppcms::service srv(cfg);
		int Ts[]={-1,0,1,2,5}, Ds[]={0,1,2,3,6}; for(int ti=0;ti<5;ti++) for(int di=0;di<5;di++) for(int api=0;api<3;api++){ vf::eval(); g_now=1000000; cppcms::cache_interface ci(srv); ci.clear(); int T=Ts[ti],D=Ds[di]; std::string cs=std::string(backends[be])+" "+(api==0?"store_frame":api==1?"store_data":"store_frame with triggers")+"(timeout "+std::to_string(T)+"), clock +"+std::to_string(D)+" s"; vf::announce("interface-deadline "+cs);
			if(api==0) ci.store_frame("k","V",T); else if(api==1){ IfBlob v; v.v="V"; ci.store_data("k",v,std::set<std::string>(),T); } else { std::set<std::string> tr; tr.insert("t"); ci.store_frame("k","V",tr,T,false); }
			g_now+=D; bool hit; if(api==1){ IfBlob v; hit=ci.fetch_data("k",v); } else { std::string v; hit=ci.fetch_frame("k",v,true); }
			bool must= T<0||D<T, mustnot= T>=0&&D>T; if(must&&!hit) vf::violation("interface:deadline:lost","an entry stored through cache_interface is gone before its deadline ["+cs+"]","\"case\":"+vf::jstr(cs)); if(mustnot&&hit) vf::violation("interface:deadline:expired-served","an entry stored through cache_interface is still served after its deadline ["+cs+"]","\"case\":"+vf::jstr(cs)); vf::guard("interface_deadline_cases"); if(mustnot) vf::guard("interface_deadline_expired_cases"); vf::outcome("ifdl|"+cs+(hit?"|hit":"|miss")); } } g_now=1000000; }
static cb::Config config(const std::string &backend,unsigned limit,int binary=0){ cb::Config c; c.backend=backend; c.limit=limit; const std::string ka= binary==1?BKA: binary==2?PKA:std::string("a"), kb= binary==1?BKB: binary==2?PKB:std::string("b"); c.ops=alphabet(ka,kb); c.keys.push_back(ka); c.keys.push_back(kb); c.label=backend+"/limit="+std::to_string(limit)+(binary==1?"/binary-keys":binary==2?"/prefix-keys":""); c.shm=512*1024; return c; }

// ---------------- cache_interface layer: triggers recorded while building are attached when stored ------------------
// programs over {fetch_frame f, store_frame f (with own trigger), add_trigger x, open recorder, close recorder, rise x}
static void interface_pass(int maxlen){ cppcms::json::value cfg; cfg["service"]["api"]="http"; cfg["service"]["port"]=0; cfg["service"]["disable_global_exit_handling"]=true; cfg["cache"]["backend"]="thread_shared"; cfg["cache"]["limit"]=100; cppcms::service srv(cfg);
	enum { STORE_F, STORE_G_DEP /* store g while a recorder/frame context has fetched f */, FETCH_F, FETCH_G, ADD_X, OPEN_REC, CLOSE_REC_STORE_P /* close recorder and store page p with the recorded triggers */, RISE_X, RISE_F, RISE_TF, NOPS };
	const char *names[]={"store_frame(f,triggers{tf})","store_frame(g)","fetch_frame(f)","fetch_frame(g)","add_trigger(x)","open_recorder","close_recorder;store_frame(p,recorded)","rise(x)","rise(f)","rise(tf)"};
	std::vector<int> prog; std::function<void(int)> rec=[&](int d){ if(d>0){ vf::eval(); cppcms::cache_interface ci(srv); ci.clear(); // reference: which frames exist and their trigger sets
			std::map<std::string,std::set<std::string> > model; std::vector<cppcms::triggers_recorder*> recs; std::vector<std::set<std::string> > rsets; std::string cs; bool okp=true;
			auto note=[&](const std::string &t){ for(size_t i=0;i<rsets.size();i++) rsets[i].insert(t); };
			for(size_t i=0;i<prog.size()&&okp;i++){ int op=prog[i]; cs+=std::string(names[op])+" ; "; switch(op){
				case STORE_F:{ std::set<std::string> t; t.insert("tf"); ci.store_frame("f","F",t,-1,false); std::set<std::string> all=t; all.insert("f"); model["f"]=all; note("f"); note("tf"); break; }
				case STORE_G_DEP:{ ci.store_frame("g","G",std::set<std::string>(),-1,false); std::set<std::string> all; all.insert("g"); model["g"]=all; note("g"); break; }
				case FETCH_F: case FETCH_G:{ std::string k= op==FETCH_F?"f":"g"; std::string v; bool hit=ci.fetch_frame(k,v,false); bool want=model.count(k); if(hit!=want){ bad_iface: vf::violation(std::string("interface:")+(want?"fetch-misses-live-frame":"fetch-returns-invalidated-frame"),"cache_interface::fetch_frame("+k+") "+(hit?"hit":"missed")+" but the reference says "+(want?"hit":"miss")+" [program: "+cs+"]","\"program\":"+vf::jstr(cs)); okp=false; break; } if(hit){ // fetching propagates the frame's triggers to enclosing recorders
						for(std::set<std::string>::iterator t=model[k].begin();t!=model[k].end();++t) note(*t); vf::guard("interface_hits"); } break; }
				case ADD_X: ci.add_trigger("x"); note("x"); break;
				case OPEN_REC: if(recs.size()<2){ recs.push_back(new cppcms::triggers_recorder(ci)); rsets.push_back(std::set<std::string>()); } break;
				case CLOSE_REC_STORE_P: if(!recs.empty()){ std::set<std::string> got=recs.back()->detach(); delete recs.back(); recs.pop_back(); std::set<std::string> want=rsets.back(); rsets.pop_back(); if(got!=want){ std::string g,w; for(std::set<std::string>::iterator t=got.begin();t!=got.end();++t) g+=*t+","; for(std::set<std::string>::iterator t=want.begin();t!=want.end();++t) w+=*t+","; vf::violation("interface:recorder-triggers","triggers_recorder collected {"+g+"} but {"+w+"} were used while it was open [program: "+cs+"]","\"program\":"+vf::jstr(cs)); okp=false; break; }
						ci.store_frame("p","P",got,-1,false); std::set<std::string> all=got; all.insert("p"); model["p"]=all; note("p"); for(std::set<std::string>::iterator t=got.begin();t!=got.end();++t) note(*t); vf::guard("recorder_closed"); } break;
				case RISE_X: case RISE_F: case RISE_TF:{ std::string t= op==RISE_X?"x":op==RISE_F?"f":"tf"; ci.rise(t); std::vector<std::string> kill; for(std::map<std::string,std::set<std::string> >::iterator m=model.begin();m!=model.end();++m) if(m->second.count(t)) kill.push_back(m->first); for(size_t q=0;q<kill.size();q++) model.erase(kill[q]); break; } } }
			// audit: every frame
			if(okp){ const char *ks[]={"f","g","p"}; for(int q=0;q<3;q++){ std::string v; bool hit=ci.fetch_frame(ks[q],v,true); bool want=model.count(ks[q]); if(hit!=want){ vf::violation(std::string("interface:")+(want?"fetch-misses-live-frame":"fetch-returns-invalidated-frame"),std::string("audit: cache_interface::fetch_frame(")+ks[q]+") "+(hit?"hit":"missed")+" but the reference says "+(want?"hit":"miss")+" [program: "+cs+"]","\"program\":"+vf::jstr(cs)); break; } if(want&&std::string(ks[q])=="p") vf::guard("page_with_inherited_triggers_alive"); } vf::outcome("iface:"+cs); }
			while(!recs.empty()){ delete recs.back(); recs.pop_back(); } }
		if(d==maxlen) return; for(int op=0;op<NOPS;op++){ prog.push_back(op); rec(d+1); prog.pop_back(); } }; rec(0); }

int main(int argc,char **argv){ vf::init(argc,argv,"C07","model_checking"); bool th=vf::thorough(); if(th&&!getenv("VERIF_BUDGET_S")) vf::C().budget_s=2700; /* BFS to fixpoint + 32^5 no-dedup sequences need more than the default 25 minutes */
	std::vector<cb::Config> cfgs; const char *be[]={"thread_shared","process_shared"}; for(int b=0;b<2;b++) for(unsigned l=0;l<4;l++){ if(!th&&!(l==0||l==2)) continue; cfgs.push_back(config(be[b],l)); } for(int b=0;b<2;b++){ cfgs.push_back(config(be[b],b?2:0,1)); cfgs.push_back(config(be[b],b?0:2,2)); } /* keys with an embedded NUL and equal hash values; keys of which one is a proper prefix of the other (equal hash values too) */
	if(!vf::C().replay_file.empty()){ std::ifstream f(vf::C().replay_file); std::stringstream ss; ss<<f.rdbuf(); std::string l=ss.str(); std::string label=vf::jfield(l,"config"); size_t p=l.find("\"history\":["); std::vector<int> h; if(p!=std::string::npos){ size_t e=l.find(']',p); h=vf::parse_choices(l.substr(p+11,e-p-11)); }
		for(int bin=0;bin<3;bin++) for(unsigned lim=0;lim<4;lim++) for(int b=0;b<2;b++){ cb::Config c=config(be[b],lim,bin); if(c.label!=label) continue; cb::RunResult r=cb::run_history(c,h,true); for(size_t i=0;i<r.trace.size();i++) printf("  %s\n",r.trace[i].c_str()); printf("replay: %s\n",r.ok?"history conforms":r.what.c_str()); if(!r.ok) vf::violation(c.label+":"+r.sig,r.what,"\"config\":"+vf::jstr(label)); } return vf::finish(); }
	if(vf::C().pass=="epoch2039"){ // the same exploration with the clock beyond 2^31 seconds (year 2039), two configurations, shallower
		g_T0=(time_t)2200000000LL; std::vector<cb::Config> ec; ec.push_back(config("thread_shared",2)); ec.push_back(config("process_shared",0)); vf::parallel(ec.size(),2,[&](int i){ cb::Stats st; cb::bfs(ec[i],th?8:6,st,[&](){ return vf::deadline_reached(); }); vf::C().states+=st.states; vf::C().transitions+=st.transitions; vf::C().traces+=st.traces; vf::guard("epoch2039_states",st.states); },th?600:100); return vf::finish(); }
	int depth=th?12:8, nd=th?5:4; double t_budget=vf::C().budget_s*0.6;
	vf::C().rule="states = canonical forms of the reference model reached by replaying operation histories on the real cache; alphabet: 20 stores (2 keys x trigger sets {none,{t},{t,u},{other key}} x deadline {now+2, none}; 2 keys x deadline {now-1 with {u}, now}), fetch a/b, rise a/b/t/u, remove a/b, clear, tick 1/2, stats (32 operations); two more configurations use prefix keys \\0 / \\0\\0 (one a proper prefix of the other, both hashing to 0) and two use binary keys k\\0a\\x10 / k\\0b\\0 (embedded NUL, equal hash values: same bucket at every table size); every operation result (value, trigger set, deadline, generation relation, counts) and a destructive audit after every history are compared with a set-valued std::map model; distinct = distinct (configuration, canonical model state)";
	vf::assume("a sub-pass repeats the search for two configurations with the clock in 2039 (time_t beyond 2^31)"); vf::assume("cache_interface deadlines: timeouts {-1,0,1,2,5} x 3 store calls x clock advances {0,1,2,3,6} x both back-ends"); vf::assume("virtual clock: time() is interposed; a hit exactly at now==deadline may go either way (set-valued model)"); vf::assume("process_shared objects are long-lived and reset by clear(), whose post-condition is checked on every use");
	std::vector<cb::Stats> stats(cfgs.size());
	vf::parallel(cfgs.size(),16,[&](int i){ cb::Stats st; cb::bfs(cfgs[i],depth,st,[&](){ return vf::elapsed()>t_budget; }); vf::C().states+=st.states; vf::C().transitions+=st.transitions; vf::C().traces+=st.traces; vf::guard(("bfs_depth_completed:"+cfgs[i].label).c_str(),st.depth_done); if(st.fixpoint) vf::guard(("bfs_fixpoint:"+cfgs[i].label).c_str()); },th?1400:110);
	vf::run_sub("asan","epoch2039");
	// no-dedup pass
	{ std::vector<cb::Config> nc; nc.push_back(config("thread_shared",0)); nc.push_back(config("thread_shared",2)); if(th){ nc.push_back(config("process_shared",0)); nc.push_back(config("thread_shared",1)); }
	  /* the deepest level only for the first configuration in the thorough tier (32^5 sequences); the pass stops at the overall budget and says so (exhaustive:false) */
	  for(size_t k=0;k<nc.size();k++){ int ndk= (th&&k>0)? nd-1 : nd; vf::parallel(16,16,[&](int sh){ cb::Stats st; for(int d=1;d<=ndk;d++) cb::nodedup(nc[k],d,sh,16,st); vf::C().traces+=st.traces; },th?2400:110); } }
	vf::parallel(1,1,[&](int){ interface_pass(th?5:4); interface_deadline_pass(); },600);
	vf::C().extra["bound"]="{\"bfs_max_depth\":"+std::to_string(depth)+",\"nodedup_depth\":"+std::to_string(nd)+",\"configs\":"+std::to_string(cfgs.size())+"}";
	vf::require_guard("nodedup_sequences"); vf::require_guard("epoch2039_states"); vf::require_guard("interface_hits"); vf::require_guard("interface_deadline_expired_cases"); vf::require_guard("recorder_closed"); vf::require_guard("page_with_inherited_triggers_alive");
	return vf::finish(); }
