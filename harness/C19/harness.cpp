// C19 - serialized objects round-trip exactly; malformed archives are rejected safely.
// Bounded-exhaustive enumeration of (a) a value universe per type (round trip through the real
// archive), (b) every truncation / length-field rewrite / byte substitution of every valid archive,
// (c) every short token sequence as archive input for every type. Oracle for (b),(c): an
// independent strict chunk reader ("the format definition"): a successful real load must be one the
// strict reader also performs, with an equal value and the same number of bytes consumed; in
// particular it never consumes bytes beyond the end of the archive.
#include "vf.h"
#include <cppcms/serialization.h>
#include <cppcms/archive_traits.h>
#include <cppcms/json.h>
#include <booster/shared_ptr.h>
#include <cppcms/session_interface.h>
#include <cppcms/session_pool.h>
#include <cppcms/http_cookie.h>
#include <cppcms/cache_interface.h>
#include <cppcms/service.h>
#include <cppcms/util.h>
#include <memory>
#include <functional>
#include <map>
#include <set>
#include <list>
#include <vector>

using namespace cppcms;

// ---------------- strict reference reader ----------------------------------------------------
struct Ref {
	const std::string &b; size_t p; bool fail; std::vector<size_t> fields; // offsets of length fields seen
	Ref(const std::string &s):b(s),p(0),fail(false){}
	bool chunk(std::string &out){ if(fail) return false; if(b.size()-p<4){ fail=true; return false; }
		uint32_t n; memcpy(&n,b.data()+p,4); if((size_t)n > b.size()-p-4){ fail=true; return false; }
		fields.push_back(p); out.assign(b,p+4,n); p+=4+(size_t)n; return true; }
};
template<class T,class E=void> struct RL; // reference loader
template<class T> bool rl_pod(Ref &r,T &v){ std::string c; if(!r.chunk(c)) return false; if(c.size()!=sizeof(T)){ r.fail=true; return false;} memcpy(&v,c.data(),sizeof(T)); return true; }
#define POD(T) template<> struct RL<T>{ static bool load(Ref &r,T &v){ return rl_pod(r,v);} }; \
 template<> struct RL<std::vector<T> >{ static bool load(Ref &r,std::vector<T> &v){ std::string c; if(!r.chunk(c)) return false; if(c.size()%sizeof(T)){ r.fail=true; return false;} v.resize(c.size()/sizeof(T)); if(!v.empty()) memcpy(&v[0],c.data(),c.size()); return true; } }; \
 template<int n> struct RL<T[n]>{ static bool load(Ref &r,T (&v)[n]){ std::string c; if(!r.chunk(c)) return false; if(c.size()!=sizeof(T)*n){ r.fail=true; return false;} memcpy(&v[0],c.data(),c.size()); return true; } };
POD(char) POD(int) POD(unsigned long long) POD(double) POD(unsigned long) POD(short)
template<> struct RL<std::string>{ static bool load(Ref &r,std::string &v){ return r.chunk(v);} };
template<class A,class B> struct RL<std::pair<A,B> >{ static bool load(Ref &r,std::pair<A,B> &v){ return RL<A>::load(r,v.first)&&RL<B>::load(r,v.second);} };
template<class C,class V> bool rl_cont(Ref &r,C &c){ size_t n; if(!rl_pod(r,n)) return false; c.clear(); for(size_t i=0;i<n;i++){ V t=V(); if(!RL<V>::load(r,t)) return false; c.insert(c.end(),t);} return true; }
template<class V> struct RL<std::vector<V> >{ static bool load(Ref &r,std::vector<V> &c){ return rl_cont<std::vector<V>,V>(r,c);} };
template<class V> struct RL<std::list<V> >{ static bool load(Ref &r,std::list<V> &c){ return rl_cont<std::list<V>,V>(r,c);} };
template<class V> struct RL<std::set<V> >{ static bool load(Ref &r,std::set<V> &c){ return rl_cont<std::set<V>,V>(r,c);} };
template<class V> struct RL<std::multiset<V> >{ static bool load(Ref &r,std::multiset<V> &c){ return rl_cont<std::multiset<V>,V>(r,c);} };
template<class K,class V> struct RL<std::map<K,V> >{ static bool load(Ref &r,std::map<K,V> &c){ return rl_cont<std::map<K,V>,std::pair<K,V> >(r,c);} };
template<class K,class V> struct RL<std::multimap<K,V> >{ static bool load(Ref &r,std::multimap<K,V> &c){ return rl_cont<std::multimap<K,V>,std::pair<K,V> >(r,c);} };
template<class V> struct RL<booster::shared_ptr<V> >{ static bool load(Ref &r,booster::shared_ptr<V> &p){ char e; if(!rl_pod(r,e)) return false; if(e){ p.reset(); return true;} p.reset(new V()); return RL<V>::load(r,*p);} };
template<class T,int n> struct RL<T[n]>{ static bool load(Ref &r,T (&v)[n]){ for(int i=0;i<n;i++) if(!RL<T>::load(r,v[i])) return false; return true; } };
template<> struct RL<json::value>{ static bool load(Ref &r,json::value &v){ std::string c; if(!r.chunk(c)) return false; std::istringstream ss(c); if(!v.load(ss,true)){ r.fail=true; return false;} return true; } };

// user class with a serialize method
struct User : public serializable {
	int id; std::string name; std::vector<std::string> tags; booster::shared_ptr<std::string> opt;
	User():id(0){}
	void serialize(archive &a){ a & id & name & tags & opt; }
};
template<> struct RL<User>{ static bool load(Ref &r,User &u){ return RL<int>::load(r,u.id)&&RL<std::string>::load(r,u.name)&&RL<std::vector<std::string> >::load(r,u.tags)&&RL<booster::shared_ptr<std::string> >::load(r,u.opt);} };

// the other supported smart pointers; a reference-counted list node for intrusive_ptr; a clonable class for clone_ptr
struct Node : public serializable { int v; booster::intrusive_ptr<Node> next; int refs; Node():v(0),refs(0){} Node(const Node &o):serializable(o),v(o.v),next(o.next),refs(0){} void serialize(archive &a){ a & v & next; } };
inline void intrusive_ptr_add_ref(Node *p){ ++p->refs; } inline void intrusive_ptr_release(Node *p){ if(--p->refs==0) delete p; }
typedef booster::intrusive_ptr<Node> PNode;
struct Cl : public serializable { std::string s; Cl *clone() const { return new Cl(*this); } void serialize(archive &a){ a & s; } };
template<> struct RL<Node>{ static bool load(Ref &r,Node &n); };
#define RLPTR(P) template<class V> struct RL<P<V> >{ static bool load(Ref &r,P<V> &p){ char e; if(!rl_pod(r,e)) return false; if(e){ p=P<V>(); return true;} p=P<V>(new V()); return RL<V>::load(r,*p);} };
RLPTR(booster::intrusive_ptr) RLPTR(booster::hold_ptr) RLPTR(booster::copy_ptr) RLPTR(booster::clone_ptr)
template<class V> struct RL<std::unique_ptr<V> >{ static bool load(Ref &r,std::unique_ptr<V> &p){ char e; if(!rl_pod(r,e)) return false; if(e){ p.reset(); return true;} p.reset(new V()); return RL<V>::load(r,*p);} };
bool RL<Node>::load(Ref &r,Node &n){ return RL<int>::load(r,n.v)&&RL<PNode>::load(r,n.next); }
template<> struct RL<Cl>{ static bool load(Ref &r,Cl &c){ return RL<std::string>::load(r,c.s);} };

// ---------------- canonical rendering (for equality and outcome counting) --------------------
template<class T> std::string bits(const T &v){ return vf::hex(std::string((const char*)&v,sizeof v)); }
std::string canon(char v){ return "c"+bits(v);} std::string canon(int v){ return "i"+std::to_string(v);} std::string canon(short v){ return "h"+std::to_string(v);}
std::string canon(unsigned long long v){ return "u"+std::to_string(v);} std::string canon(unsigned long v){ return "l"+std::to_string(v);}
std::string canon(double v){ return "d"+bits(v);} std::string canon(const std::string &s){ return "s"+std::to_string(s.size())+":"+vf::hex(s);}
std::string canon(const json::value &v){ std::ostringstream o; v.save(o); return "j"+o.str(); }
template<class A,class B> std::string canon(const std::pair<A,B> &p);
template<class V> std::string canon(const booster::shared_ptr<V> &p);
std::string canon(const User &u); struct Node; struct Cl;
template<class C> std::string canon_c(const C &c){ std::string r="["; for(typename C::const_iterator i=c.begin();i!=c.end();++i){ r+=canon(*i); r+=","; } return r+"]"; }
template<class V> std::string canon(const std::vector<V> &c){ return canon_c(c);} template<class V> std::string canon(const std::list<V> &c){ return canon_c(c);}
template<class V> std::string canon(const std::set<V> &c){ return canon_c(c);} template<class V> std::string canon(const std::multiset<V> &c){ return canon_c(c);}
template<class K,class V> std::string canon(const std::map<K,V> &c){ return canon_c(c);} template<class K,class V> std::string canon(const std::multimap<K,V> &c){ return canon_c(c);}
template<class A,class B> std::string canon(const std::pair<A,B> &p){ return "("+canon(p.first)+";"+canon(p.second)+")"; }
template<class V> std::string canon(const booster::shared_ptr<V> &p){ return p? "P"+canon(*p) : std::string("null"); }
std::string canon(const Node &n); std::string canon(const Cl &c){ return "Cl{"+canon(c.s)+"}"; }
#define CANONPTR(P) template<class V> std::string canon(const P<V> &p){ return p.get()? "P"+canon(*p) : std::string("null"); }
CANONPTR(booster::intrusive_ptr) CANONPTR(booster::hold_ptr) CANONPTR(booster::copy_ptr) CANONPTR(booster::clone_ptr) CANONPTR(std::unique_ptr)
std::string canon(const Node &n){ return "N{"+canon(n.v)+canon(n.next)+"}"; }
std::string canon(const User &u){ return "U{"+canon(u.id)+canon(u.name)+canon(u.tags)+canon(u.opt)+"}"; }
template<class T,int n> std::string canon_arr(const T (&v)[n]){ std::string r="A["; for(int i=0;i<n;i++) r+=canon(v[i])+","; return r+"]"; }
struct Int3 { int v[3]; }; struct Str2 { std::string v[2]; };
std::string canon(const Int3 &a){ return canon_arr(a.v);} std::string canon(const Str2 &a){ return canon_arr(a.v);}
namespace cppcms { template<> struct archive_traits<Int3>{ static void save(Int3 const &d,archive &a){ archive_traits<int[3]>::save(d.v,a);} static void load(Int3 &d,archive &a){ archive_traits<int[3]>::load(d.v,a);} };
 template<> struct archive_traits<Str2>{ static void save(Str2 const &d,archive &a){ archive_traits<std::string[2]>::save(d.v,a);} static void load(Str2 &d,archive &a){ archive_traits<std::string[2]>::load(d.v,a);} }; }
template<> struct RL<Int3>{ static bool load(Ref &r,Int3 &v){ return RL<int[3]>::load(r,v.v);} };
template<> struct RL<Str2>{ static bool load(Ref &r,Str2 &v){ return RL<std::string[2]>::load(r,v.v);} };

// ---------------- one load of one archive as one type ----------------------------------------
// returns outcome class string. Reports violations.
static std::string g_phase;
template<class T> std::string load_case(const char *tname,const std::string &bytes){
	vf::eval();
	// real
	bool ok=false; T real=T(); size_t consumed=0; std::string ex;
	{ vf::announce(std::string(tname)+" "+g_phase+" "+vf::hex(bytes));
	  archive a; a.str(bytes);
	  try { archive_traits<T>::load(real,a); ok=true; consumed=a.ptr_; }
	  catch(std::exception const &e){ ex=e.what(); } }
	// reference
	Ref r(bytes); T ref=T(); bool rok=RL<T>::load(r,ref);
	std::string cls;
	if(ok){
		if(consumed>bytes.size()){
			vf::violation(std::string("overread:")+tname,std::string("load as ")+tname+" succeeded but consumed "+std::to_string(consumed)+" bytes of a "+std::to_string(bytes.size())+"-byte archive (read outside the archive)","\"type\":"+vf::jstr(tname)+",\"archive_hex\":"+vf::jstr(vf::hex(bytes)));
			return "overread"; }
		if(!rok){ vf::violation(std::string("accepted-malformed:")+tname,std::string("load as ")+tname+" succeeded on an archive the strict chunk reader rejects","\"type\":"+vf::jstr(tname)+",\"archive_hex\":"+vf::jstr(vf::hex(bytes))); return "accepted-malformed"; }
		std::string c1=canon(real),c2=canon(ref);
		if(c1!=c2){ vf::violation(std::string("value-mismatch:")+tname,std::string("load as ")+tname+" produced "+c1+" but the archive encodes "+c2,"\"type\":"+vf::jstr(tname)+",\"archive_hex\":"+vf::jstr(vf::hex(bytes))); return "mismatch"; }
		if(consumed!=r.p){ vf::violation(std::string("consumed-mismatch:")+tname,"bytes consumed differ from the format definition","\"type\":"+vf::jstr(tname)+",\"archive_hex\":"+vf::jstr(vf::hex(bytes))); return "consumed"; }
		cls="ok:"+c1;
	}
	else {
		// throwing is always admissible for arbitrary bytes; but a *valid* archive must load (round trip, checked by the caller)
		cls=std::string("throw:")+(rok?"ref-ok":"ref-fail")+":"+std::to_string(r.fields.size());
		if(rok) cls+="!"; // real refuses what the reference accepts: only a violation for writer-produced archives (caller)
	}
	if(!bytes.empty()&&(!r.fields.empty()||ok)) vf::outcome(std::string(tname)+"|"+cls);
	return cls;
}

// ---------------- value universes -------------------------------------------------------------
template<class T> struct U; // universe: fills vector<T>
static std::vector<std::string> strs(){ std::vector<std::string> r; r.push_back(""); r.push_back("a"); r.push_back(std::string("x\0y",3)); r.push_back(std::string(300,'q')); r.push_back("\xff\xfe"); return r; }
template<> struct U<char>{ static void get(std::vector<char> &o){ o.push_back(0); o.push_back('a'); o.push_back((char)0xff);} };
template<> struct U<int>{ static void get(std::vector<int> &o){ o.push_back(0); o.push_back(-1); o.push_back(0x7fffffff); o.push_back(5);} };
template<> struct U<short>{ static void get(std::vector<short> &o){ o.push_back(0); o.push_back(-2);} };
template<> struct U<unsigned long long>{ static void get(std::vector<unsigned long long> &o){ o.push_back(0); o.push_back(~0ull); o.push_back(1ull<<40);} };
template<> struct U<unsigned long>{ static void get(std::vector<unsigned long> &o){ o.push_back(0); o.push_back(2);} };
template<> struct U<double>{ static void get(std::vector<double> &o){ o.push_back(0.0); o.push_back(-0.0); o.push_back(1.0/3); o.push_back(1e308*10); o.push_back(5e-324);} };
template<> struct U<std::string>{ static void get(std::vector<std::string> &o){ o=strs(); } };
template<> struct U<json::value>{ static void get(std::vector<json::value> &o){ json::value v; v=json::null(); o.push_back(v); v=1.5; o.push_back(v); v="s\"\n"; o.push_back(v); { std::string ctl; for(int c=1;c<0x20;c++) ctl+=(char)c; ctl+="\x7f/\\\""; v=ctl; o.push_back(v); /* every control byte, DEL, slash, backslash, quote in one string */ json::value kc; kc[std::string("k\x1f\x01")]="v\x1f"; o.push_back(kc); for(int c=0x1d;c<=0x20;c++){ json::value one; one=std::string(1,(char)c); o.push_back(one); } } json::value a; a[0]=1; a[1]["k"]="v"; o.push_back(a); json::value ob; ob["x"]=json::array(); ob["y"]=json::object(); ob["z"]=true; o.push_back(ob);} };
template<class A,class B> struct U<std::pair<A,B> >{ static void get(std::vector<std::pair<A,B> > &o){ std::vector<A> a; std::vector<B> b; U<A>::get(a); U<B>::get(b); for(size_t i=0;i<a.size()&&i<3;i++) for(size_t j=0;j<b.size()&&j<3;j++) o.push_back(std::make_pair(a[i],b[j])); } };
// containers: element counts 0,1,2 (all ordered pairs of the first 3 element values) + one of 3 elements
template<class C,class V> void ucont(std::vector<C> &o){ std::vector<V> e; U<V>::get(e); size_t m=std::min<size_t>(e.size(),4); C c; o.push_back(c);
	for(size_t i=0;i<m;i++){ C c1; c1.insert(c1.end(),e[i]); o.push_back(c1); }
	for(size_t i=0;i<m;i++) for(size_t j=0;j<m;j++){ C c2; c2.insert(c2.end(),e[i]); c2.insert(c2.end(),e[j]); o.push_back(c2); }
	if(m>=3){ C c3; c3.insert(c3.end(),e[2]); c3.insert(c3.end(),e[0]); c3.insert(c3.end(),e[1]); o.push_back(c3);} }
template<class V> struct U<std::vector<V> >{ static void get(std::vector<std::vector<V> > &o){ ucont<std::vector<V>,V>(o);} };
template<class V> struct U<std::list<V> >{ static void get(std::vector<std::list<V> > &o){ ucont<std::list<V>,V>(o);} };
template<class V> struct U<std::set<V> >{ static void get(std::vector<std::set<V> > &o){ ucont<std::set<V>,V>(o);} };
template<class V> struct U<std::multiset<V> >{ static void get(std::vector<std::multiset<V> > &o){ ucont<std::multiset<V>,V>(o);} };
template<class K,class V> struct U<std::map<K,V> >{ static void get(std::vector<std::map<K,V> > &o){ ucont<std::map<K,V>,std::pair<K,V> >(o);} };
template<class K,class V> struct U<std::multimap<K,V> >{ static void get(std::vector<std::multimap<K,V> > &o){ ucont<std::multimap<K,V>,std::pair<K,V> >(o);} };
template<class V> struct U<booster::shared_ptr<V> >{ static void get(std::vector<booster::shared_ptr<V> > &o){ o.push_back(booster::shared_ptr<V>()); std::vector<V> e; U<V>::get(e); for(size_t i=0;i<e.size()&&i<3;i++) o.push_back(booster::shared_ptr<V>(new V(e[i]))); } };
template<> struct U<User>{ static void get(std::vector<User> &o){ User u; o.push_back(u); u.id=7; u.name=std::string("n\0m",3); u.tags.push_back(""); u.tags.push_back("t"); o.push_back(u); u.opt.reset(new std::string("opt")); o.push_back(u);} };
template<> struct U<Cl>{ static void get(std::vector<Cl> &o){ Cl c; o.push_back(c); c.s="cl"; o.push_back(c); c.s=std::string(40,'k'); o.push_back(c);} };
static PNode mklist(int n,int base){ PNode h; for(int i=n;i>=1;i--){ PNode x(new Node()); x->v=base+i; x->next=h; h=x; } return h; }
template<> struct U<PNode>{ static void get(std::vector<PNode> &o){ o.push_back(PNode()); o.push_back(mklist(1,10)); o.push_back(mklist(2,20)); o.push_back(mklist(3,30)); } };
template<> struct U<Node>{ static void get(std::vector<Node> &o){ Node n; o.push_back(n); n.v=5; o.push_back(n); n.next=mklist(1,40); o.push_back(n); n.v=6; n.next=mklist(3,50); o.push_back(n);} };
#define UPTR(P) template<class V> struct U<P<V> >{ static void get(std::vector<P<V> > &o){ o.push_back(P<V>()); std::vector<V> e; U<V>::get(e); for(size_t i=0;i<e.size()&&i<3;i++) o.push_back(P<V>(new V(e[i]))); } };
UPTR(booster::hold_ptr) UPTR(booster::copy_ptr) UPTR(booster::clone_ptr) UPTR(std::unique_ptr)
template<> struct U<Int3>{ static void get(std::vector<Int3> &o){ Int3 a={{0,0,0}}; o.push_back(a); Int3 b={{1,-1,0x01020304}}; o.push_back(b);} };
template<> struct U<Str2>{ static void get(std::vector<Str2> &o){ Str2 a; o.push_back(a); a.v[0]="p"; a.v[1]=std::string(20,'z'); o.push_back(a);} };

static const uint32_t LEN_MENU_ABS[]={0,1,2,3,4,5,8,0x7fffffffu,0xfffffffcu,0xfffffffdu,0xfffffffeu,0xffffffffu};

template<class T> void type_pass(const char *tname,int shard,int nshards,int &counter){
	std::vector<T> vals; U<T>::get(vals);
	for(size_t vi=0;vi<vals.size();vi++){
		if(counter++%nshards!=shard) continue;
		// (a) round trip through the real writer/reader and through the serialization_traits string API
		archive a; archive_traits<T>::save(vals[vi],a); std::string bytes=a.str();
		g_phase="roundtrip"; std::string cls=load_case<T>(tname,bytes);
		std::string want="ok:"+canon(vals[vi]);
		if(cls!=want&&cls.compare(0,3,"ok:")==0) vf::violation(std::string("roundtrip:")+tname,"save then load gives a different value: "+cls+" vs "+want,"\"type\":"+vf::jstr(tname)+",\"archive_hex\":"+vf::jstr(vf::hex(bytes)));
		if(cls.compare(0,5,"throw")==0) vf::violation(std::string("roundtrip-throw:")+tname,"load of an archive produced by save throws","\"type\":"+vf::jstr(tname)+",\"archive_hex\":"+vf::jstr(vf::hex(bytes)));
		{ Ref r(bytes); T t=T(); if(!RL<T>::load(r,t)||r.p!=bytes.size()||canon(t)!=canon(vals[vi])){ fprintf(stderr,"harness error: reference reader disagrees with the writer for %s\n",tname); vf::C().harness_error=true; } }
		vf::guard("roundtrips");
		// (a2) the same archive loaded into a target that is NOT fresh: it already holds another value of the universe (an object
		// reused for a second fetch_data / archive >> obj). What is loaded must still equal what was saved.
		g_phase="reused-target";
		for(size_t vj=0;vj<vals.size();vj++){ vf::eval(); archive b; archive_traits<T>::save(vals[vj],b); T tgt=T(); std::string ex; try{ archive l; l.str(b.str()); archive_traits<T>::load(tgt,l); archive l2; l2.str(bytes); archive_traits<T>::load(tgt,l2); if(!l2.eof()) ex="archive not consumed"; }catch(std::exception const &e){ ex=std::string("throws ")+e.what(); }
			if(!ex.empty()||canon(tgt)!=canon(vals[vi])) vf::violation(std::string("reused-target:")+tname,std::string("an archive of ")+canon(vals[vi]).substr(0,80)+" loaded into a "+tname+" that already held "+canon(vals[vj]).substr(0,80)+" gives "+(ex.empty()?canon(tgt).substr(0,120):ex),"\"type\":"+vf::jstr(tname)+",\"archive_hex\":"+vf::jstr(vf::hex(bytes))+",\"previous_archive_hex\":"+vf::jstr(vf::hex(b.str())));
			vf::guard("loads_into_used_target"); }
		if(vi<2) vf::sample("{\"type\":"+vf::jstr(tname)+",\"phase\":\"roundtrip\",\"archive_hex\":"+vf::jstr(vf::hex(bytes.substr(0,64)))+",\"outcome\":"+vf::jstr(cls.substr(0,60))+"}",40);
		// (b1) every truncation, and every extension by 1..4 bytes
		g_phase="trunc";
		size_t step = bytes.size()>2000? 7:1;
		for(size_t n=0;n<bytes.size();n+=step){ std::string c=load_case<T>(tname,bytes.substr(0,n)); if(c.compare(0,3,"ok:")==0) vf::guard("truncation_still_loads"); else vf::guard("truncation_refused"); }
		for(int k=1;k<=4;k++){ load_case<T>(tname,bytes+std::string(k,'\1')); }
		// (b2) every length field rewritten
		g_phase="lenfield";
		Ref r(bytes); { T t=T(); RL<T>::load(r,t); }
		for(size_t fi=0;fi<r.fields.size();fi++){ size_t off=r.fields[fi]; uint32_t cur; memcpy(&cur,bytes.data()+off,4); uint32_t rem=(uint32_t)(bytes.size()-off-4);
			std::vector<uint32_t> menu(LEN_MENU_ABS,LEN_MENU_ABS+sizeof(LEN_MENU_ABS)/4);
			menu.push_back(cur-1); menu.push_back(cur+1); for(int d=-1;d<=5;d++) menu.push_back(rem+d);
			for(size_t m=0;m<menu.size();m++){ if(menu[m]==cur) continue; std::string mb=bytes; memcpy(&mb[off],&menu[m],4);
				std::string c=load_case<T>(tname,mb); vf::guard("lenfield_cases"); if(menu[m]>rem&&menu[m]<=rem+3) vf::guard("lenfield_1to3_past_end");
				if(c.compare(0,3,"ok:")==0) vf::guard("lenfield_still_loads"); }
		}
		// (b3) single-byte substitution
		g_phase="subst";
		if(bytes.size()<=400){ static const unsigned char sub[]={0x00,0x01,0xff};
			for(size_t i=0;i<bytes.size();i++) for(int s=0;s<3;s++){ if((unsigned char)bytes[i]==sub[s]) continue; std::string mb=bytes; mb[i]=(char)sub[s]; load_case<T>(tname,mb); vf::guard("subst_cases"); } }
	}
}

// (c) token sequences as raw archives
static std::vector<std::string> tokens(){ std::vector<std::string> t; uint32_t lens[]={0,1,2,3,4,5,8,9,12,0xffffffffu,0x7fffffffu,0xfffffffdu};
	for(size_t i=0;i<sizeof(lens)/4;i++) t.push_back(std::string((char*)&lens[i],4));
	t.push_back(std::string(1,'\0')); t.push_back(std::string(1,'\1')); t.push_back("abcd");
	unsigned long long cnt[]={0,1,2,1ull<<61}; for(int i=0;i<4;i++) t.push_back(std::string((char*)&cnt[i],8));
	return t; }
template<class T> void token_one(const char *tname,const std::string &bytes){ g_phase="tokens"; std::string c=load_case<T>(tname,bytes); if(c.compare(0,3,"ok:")==0) vf::guard("token_archives_loaded"); }
typedef std::map<std::string,int> MapSI; typedef std::vector<std::string> VecS; typedef std::vector<int> VecI; typedef booster::shared_ptr<std::string> PStr;
static void token_all_types(const std::string &b){
	token_one<std::string>("string",b); token_one<int>("int",b); token_one<VecI>("vector<int>",b); token_one<VecS>("vector<string>",b);
	token_one<MapSI>("map<string,int>",b); token_one<PStr>("shared_ptr<string>",b); token_one<User>("User",b); token_one<std::set<int> >("set<int>",b); token_one<char>("char",b);
}
static void token_pass(int depth,int shard,int nshards){
	std::vector<std::string> tk=tokens(); size_t T=tk.size();
	std::function<void(std::string&,int)> rec=[&](std::string &cur,int d){ if(d>0||shard==0) token_all_types(cur); if(d==depth) return;
		for(size_t i=0;i<T;i++){ if(d==0&&(int)(i%nshards)!=shard) continue; size_t l=cur.size(); cur+=tk[i]; rec(cur,d+1); cur.resize(l);} };
	std::string cur; rec(cur,0);
}

typedef std::list<std::pair<int,std::string> > ListPIS; typedef std::map<std::string,std::vector<int> > MapSVI; typedef std::multimap<int,std::string> MMapIS;
typedef std::vector<std::vector<std::string> > VecVecS; typedef std::map<std::string,std::map<int,std::string> > MapSMapIS; typedef booster::shared_ptr<std::vector<std::string> > PVecS;
typedef std::vector<booster::shared_ptr<std::string> > VecPStr; typedef std::vector<User> VecUser; typedef std::pair<int,std::vector<double> > PairIVD;

static void all_types(int shard,int nshards){ int counter=0;
#define TP(T,name) type_pass<T>(name,shard,nshards,counter)
	TP(char,"char"); TP(int,"int"); TP(short,"short"); TP(unsigned long long,"uint64"); TP(double,"double"); TP(std::string,"string");
	TP(VecI,"vector<int>"); TP(std::vector<char>,"vector<char>"); TP(std::vector<double>,"vector<double>"); TP(VecS,"vector<string>"); TP(ListPIS,"list<pair<int,string>>"); TP(MapSVI,"map<string,vector<int>>");
	TP(std::set<int>,"set<int>"); TP(std::multiset<std::string>,"multiset<string>"); TP(MMapIS,"multimap<int,string>"); TP(MapSI,"map<string,int>"); TP(PStr,"shared_ptr<string>"); TP(json::value,"json::value");
	TP(User,"User"); TP(Int3,"int[3]"); TP(Str2,"string[2]");
	TP(PNode,"intrusive_ptr<Node>"); TP(Node,"Node{int,intrusive_ptr<Node>}"); TP(booster::hold_ptr<std::string>,"hold_ptr<string>"); TP(booster::copy_ptr<std::string>,"copy_ptr<string>"); TP(booster::clone_ptr<Cl>,"clone_ptr<Cl>"); TP(std::unique_ptr<std::string>,"unique_ptr<string>"); TP(std::vector<PNode>,"vector<intrusive_ptr<Node>>");
	TP(VecVecS,"vector<vector<string>>"); TP(MapSMapIS,"map<string,map<int,string>>"); TP(PVecS,"shared_ptr<vector<string>>"); TP(VecPStr,"vector<shared_ptr<string>>"); TP(VecUser,"vector<User>"); TP(PairIVD,"pair<int,vector<double>>");
}


// ---- (e) one archive object as a state machine ---------------------------------------------------------------------
// Every sequence of <= depth operations on ONE archive object (saves in either mode, loads, mode(), reset(), str(image),
// copy/move), against a model that is just (chunk bytes, cursor, mode). After every step the observable state
// (mode(), str(), eof(), next_chunk_size()) and every load result must agree with the model: an image handed over with
// str(image) is read from its beginning; mode()/reset() rewind; a copy continues where the original was.
struct AModel { std::string buf; size_t p; int mode; AModel():p(0),mode(0){}
	bool chunk(std::string &out){ if(p>=buf.size()) return false; if(buf.size()-p<4) return false; uint32_t n; memcpy(&n,buf.data()+p,4); if((size_t)n>buf.size()-p-4) return false; out.assign(buf,p+4,n); return true; }
	void put(const std::string &c){ uint32_t n=c.size(); buf.append((char*)&n,4); buf+=c; }
	bool get_int(int &v){ std::string c; if(!chunk(c)||c.size()!=4) return false; memcpy(&v,c.data(),4); p+=8; return true; }
	bool get_str(std::string &v){ if(!chunk(v)) return false; p+=4+v.size(); return true; } };
static std::string img_a(){ archive a; int v=0x11; a<<v; return a.str(); }
static std::string img_b(){ archive a; int v=0x22; std::string s("xy"); int w=0x33; a<<v<<s<<w; return a.str(); }
static const char *OBJ_OPS[]={"save_int","save_str","load_int","load_str","amp_int","load_pis","mode_load","mode_save","reset","str_a","str_b","str_empty","copy","move","assign_fresh_copy"};
static const int N_OBJ_OPS=sizeof(OBJ_OPS)/sizeof(OBJ_OPS[0]);
// runs one sequence; returns "" or a description of the first divergence
static std::string g_div_op;
static std::string obj_run(const std::vector<int> &ops,bool verbose=false){ g_div_op.clear();
	std::unique_ptr<archive> a(new archive()); AModel m; std::string trace;
	for(size_t i=0;i<ops.size();i++){ std::string op=OBJ_OPS[ops[i]]; std::string got,want;
		try {
			if(op=="save_int"){ int v=0x41+(int)i; *a<<v; m.put(std::string((char*)&v,4)); }
			else if(op=="save_str"){ std::string v(i+1,'s'); *a<<v; m.put(v); }
			else if(op=="load_int"){ int v=-1,w=-1; bool mk=m.get_int(w); want=mk?"int:"+std::to_string(w):"throw"; try{ *a>>v; got="int:"+std::to_string(v);}catch(archive_error const &){ got="throw"; } }
			else if(op=="load_str"){ std::string v,w; bool mk=m.get_str(w); want=mk?"str:"+vf::hex(w):"throw"; try{ *a>>v; got="str:"+vf::hex(v);}catch(archive_error const &){ got="throw"; } }
			else if(op=="amp_int"){ int v=0x61+(int)i; if(m.mode==0){ *a & v; m.put(std::string((char*)&v,4)); } else { int w=-1; bool mk=m.get_int(w); want=mk?"int:"+std::to_string(w):"throw"; try{ *a & v; got="int:"+std::to_string(v);}catch(archive_error const &){ got="throw"; } } }
			else if(op=="load_pis"){ std::pair<int,std::string> v,w; bool mk=m.get_int(w.first)&&m.get_str(w.second); want=mk?"pis:"+std::to_string(w.first)+":"+vf::hex(w.second):"throw"; try{ *a>>v; got="pis:"+std::to_string(v.first)+":"+vf::hex(v.second);}catch(archive_error const &){ got="throw"; } }
			else if(op=="mode_load"){ a->mode(archive::load_from_archive); m.mode=1; m.p=0; }
			else if(op=="mode_save"){ a->mode(archive::save_to_archive); m.mode=0; m.p=0; }
			else if(op=="reset"){ a->reset(); m.p=0; }
			else if(op=="str_a"){ a->str(img_a()); m.buf=img_a(); m.mode=1; m.p=0; }
			else if(op=="str_b"){ a->str(img_b()); m.buf=img_b(); m.mode=1; m.p=0; }
			else if(op=="str_empty"){ a->str(std::string()); m.buf.clear(); m.mode=1; m.p=0; }
			else if(op=="copy"){ std::unique_ptr<archive> b(new archive(*a)); a.swap(b); }
			else if(op=="move"){ std::unique_ptr<archive> b(new archive(std::move(*a))); a.swap(b); }
			else if(op=="assign_fresh_copy"){ std::unique_ptr<archive> b(new archive()); int junk=9; *b<<junk; *b=*a; a.swap(b); }
		} catch(std::exception const &e){ got=std::string("unexpected-exception:")+e.what(); }
		if(got!=want){ g_div_op=op; } if(got!=want) return "step "+std::to_string(i)+" ("+op+"): real "+got+" but the model says "+want;
		// observable state after the step
		std::string os,ms;
		os="mode="+std::to_string((int)a->mode())+" str="+vf::hex(a->str())+" eof="+std::to_string((int)a->eof());
		ms="mode="+std::to_string(m.mode)+" str="+vf::hex(m.buf)+" eof="+std::to_string((int)(m.p>=m.buf.size()));
		{ std::string c; bool mk=m.chunk(c); ms+=mk?" next="+std::to_string(c.size()):" next=throw"; try{ size_t n=a->next_chunk_size(); os+=" next="+std::to_string(n);}catch(archive_error const &){ os+=" next=throw"; } }
		if(verbose) printf("  %-18s %s\n",op.c_str(),os.c_str());
		if(os!=ms){ g_div_op=op; } if(os!=ms) return "after step "+std::to_string(i)+" ("+op+"): real {"+os+"} but the model says {"+ms+"}";
		if(!got.empty()&&got!="throw") vf::guard("object_loads_ok");
		if(got=="throw") vf::guard("object_loads_refused");
		if(op.compare(0,4,"str_")==0&&i>0) vf::guard("object_str_on_used_archive");
	}
	return "";
}
static std::string obj_names(const std::vector<int> &ops){ std::string s; for(size_t i=0;i<ops.size();i++){ if(i) s+=","; s+=OBJ_OPS[ops[i]]; } return s; }
static void object_pass(int depth,int shard,int nshards){ std::vector<int> cur; uint64_t tick=0;
	// iterative deepening: all sequences of length 1, then 2, ... so that the first counterexample per signature is a shortest one
	for(int len=1;len<=depth;len++){ std::function<void(int)> rec=[&](int d){
		if(d==len){ vf::eval(); vf::announce("object-seq "+obj_names(cur)); std::string r=obj_run(cur);
			if(!r.empty()){ vf::violation("object-seq:"+g_div_op,"sequence ["+obj_names(cur)+"] on one archive object: "+r,"\"ops\":"+vf::jstr(obj_names(cur))); return; }
			vf::guard("object_sequences"); if(d==depth&&vf::sample_tick(tick,20011)) vf::sample("{\"phase\":\"object-sequence\",\"ops\":"+vf::jstr(obj_names(cur))+",\"outcome\":\"agrees with the model at every step\"}",44);
			vf::outcome("objseq|"+std::to_string(cur.size())+"|"+OBJ_OPS[cur.back()]); return; }
		for(int o=0;o<N_OBJ_OPS;o++){ if(d==0&&o%nshards!=shard) continue; cur.push_back(o); rec(d+1); cur.pop_back(); } };
		rec(0); }
}

// ---- the convenience calls: session_interface::store_data/fetch_data and cache_interface::store_data/fetch_data ------
struct ConvJar : public cppcms::session_interface_cookie_adapter { std::map<std::string,std::string> c; void set_cookie(cppcms::http::cookie const &k){ if(k.value().empty()) c.erase(k.name()); else c[k.name()]=cppcms::util::urldecode(k.value()); } std::string get_session_cookie(std::string const &n){ return c.count(n)?c[n]:std::string(); } std::set<std::string> get_cookie_names(){ std::set<std::string> s; for(std::map<std::string,std::string>::iterator i=c.begin();i!=c.end();++i) s.insert(i->first); return s; } };
// ---- the process-global locale as a dimension: archives of numbers, json values and user objects written and read while the global C++ locale
// groups digits (en_US-like: '.' decimal point, ',' every three digits) or uses ',' as the decimal point must load back equal
struct group_punct : std::numpunct<char> { char do_decimal_point() const { return '.'; } char do_thousands_sep() const { return ','; } std::string do_grouping() const { return "\3"; } };
struct comma_punct : std::numpunct<char> { char do_decimal_point() const { return ','; } char do_thousands_sep() const { return '.'; } std::string do_grouping() const { return "\3"; } };
struct JUser : public serializable { int id; json::value j; JUser():id(0){} void serialize(archive &a){ a & id & j; } };
static void locale_pass(){ std::vector<json::value> js; { json::value v; v=1234567; js.push_back(v); v=1000; js.push_back(v); v=999; js.push_back(v); v=-1234.5; js.push_back(v); v=1e15; js.push_back(v); json::value a; a[0]=1234567; a[1]=2; js.push_back(a); json::value o; o["k"]=123456; o["s"]="1,234"; js.push_back(o); json::value d; d["x"]["y"][1]=98765.25; js.push_back(d); }
	std::locale locs[2]={std::locale(std::locale::classic(),new group_punct()),std::locale(std::locale::classic(),new comma_punct())}; const char *ln[2]={"global locale groups digits ('.' decimal point)","global locale with ',' as decimal point"};
	for(int l=0;l<2;l++){ std::locale old=std::locale::global(locs[l]);
		for(size_t i=0;i<js.size();i++){ vf::eval(); std::string cs=std::string(ln[l])+", json value #"+std::to_string(i); try{ archive a; a<<js[i]; std::string bytes=a.str(); archive b; b.str(bytes); json::value back; b>>back; if(!(back==js[i])) vf::violation("locale:json-roundtrip","a json value saved to an archive loads back as a different value ["+cs+"]","\"case\":"+vf::jstr(cs)+",\"archive_hex\":"+vf::jstr(vf::hex(bytes))); else vf::guard("locale_roundtrips");
				JUser u; u.id=1234567; u.j=js[i]; std::string blob; cppcms::serialization_traits<JUser>::save(u,blob); JUser w; cppcms::serialization_traits<JUser>::load(blob,w); if(w.id!=u.id||!(w.j==u.j)) vf::violation("locale:user-object-roundtrip","a user object holding a json value does not round-trip through serialization_traits ["+cs+"]","\"case\":"+vf::jstr(cs)+",\"archive_hex\":"+vf::jstr(vf::hex(blob))); else vf::guard("locale_roundtrips");
			}catch(std::exception const &e){ vf::violation("locale:roundtrip-throws","saving and loading a json value throws "+std::string(e.what())+" ["+cs+"]","\"case\":"+vf::jstr(cs)); } }
		{ vf::eval(); double dv=1234567.5; int iv=7654321; std::vector<double> vd; vd.push_back(1e6); vd.push_back(-2500.25); archive a; a<<dv<<iv<<vd; archive b; b.str(a.str()); double d2=0; int i2=0; std::vector<double> v2; b>>d2>>i2>>v2; if(d2!=dv||i2!=iv||v2!=vd) vf::violation("locale:number-roundtrip","plain numbers do not round-trip under "+std::string(ln[l]),"\"case\":"+vf::jstr(ln[l])); else vf::guard("locale_roundtrips"); }
		std::locale::global(old); } }

static void convenience_pass(){ std::vector<User> us; U<User>::get(us); { User big; big.id=-5; big.name=std::string(700,'n'); for(int i=0;i<30;i++) big.tags.push_back(std::string(i,'t')); us.push_back(big); }
	cppcms::json::value sc; sc["session"]["location"]="client"; sc["session"]["client"]["hmac"]="sha1"; sc["session"]["client"]["hmac_key"]="00112233445566778899aabbccddeeff00112233"; cppcms::session_pool pool(sc); pool.init();
	cppcms::json::value cc; cc["service"]["api"]="http"; cc["service"]["port"]=0; cc["service"]["disable_global_exit_handling"]=true; cc["cache"]["backend"]="thread_shared"; cc["cache"]["limit"]=100; cc["logging"]["level"]="emergency"; cppcms::service srv(cc); cppcms::cache_interface ci(srv);
	for(size_t i=0;i<us.size();i++){ vf::eval(); ConvJar jar; { cppcms::session_interface s1(pool,jar); s1.load(); s1.store_data("obj",us[i]); s1.save(); } { cppcms::session_interface s2(pool,jar); s2.load(); User back; try{ s2.fetch_data("obj",back); if(canon(back)!=canon(us[i])) vf::violation("convenience:session-roundtrip","object stored with session store_data comes back different","\"case\":\"session store_data/fetch_data\""); else vf::guard("session_store_data_roundtrips"); }catch(std::exception const &e){ vf::violation("convenience:session-throws",std::string("session fetch_data throws on stored object: ")+e.what(),"\"case\":\"session\""); }
			// damaged stored value: every truncation -> must throw or equal the strict reference
			std::string good=s2.get("obj"); for(size_t n=0;n<good.size();n+= (good.size()>300?13:1)){ vf::eval(); s2.set("obj",good.substr(0,n)); User b2; bool ok=true; try{ s2.fetch_data("obj",b2); }catch(std::exception const &){ ok=false; } Ref r(s2.get("obj")); std::string cut=good.substr(0,n); Ref rr(cut); User ru; bool rok=RL<User>::load(rr,ru); if(ok&&(!rok||canon(ru)!=canon(b2))) vf::violation("convenience:session-damaged","fetch_data accepts a truncated stored object","\"case\":\"session truncated\""); vf::guard("session_damaged_values"); } }
		ci.store_data("obj"+std::to_string(i),us[i]); User cb; if(!ci.fetch_data("obj"+std::to_string(i),cb)||canon(cb)!=canon(us[i])) vf::violation("convenience:cache-roundtrip","object stored with cache store_data comes back different or is missing","\"case\":\"cache store_data/fetch_data\""); else vf::guard("cache_store_data_roundtrips"); }
	// size limits of the session format (key length field 10 bits, value length field 21 bits): objects whose serialized size is 2^21-2 .. 2^21+1 and keys of 1022 .. 1025
	// bytes. store_data + save may refuse (throw); if they do not, the NEXT request must load the session and get the object back - never a session that no longer loads.
	{ User probe; probe.id=1; probe.name="x"; std::string base; { archive a; archive_traits<User>::save(probe,a); base=a.str(); } size_t overhead=base.size()-1; long sizes[]={(1L<<21)-2,(1L<<21)-1,(1L<<21),(1L<<21)+1}; int klens[]={1022,1023,1024,1025};
	  for(int which=0;which<8;which++){ vf::eval(); User u; u.id=7; size_t target= which<4? (size_t)sizes[which] : 50; u.name=std::string(target-overhead,'z'); std::string key= which<4? std::string("obj") : std::string(klens[which-4],'k'); { archive a; archive_traits<User>::save(u,a); if(a.str().size()!=target){ fprintf(stderr,"harness error: size computation (%zu vs %zu)\n",a.str().size(),target); vf::C().harness_error=true; break; } }
		std::string cs= which<4? "session store_data of an object serialized to "+std::to_string(target)+" bytes" : "session store_data under a key of "+std::to_string(key.size())+" bytes"; vf::announce("convenience "+cs); ConvJar jar; bool saved=false; std::string why;
		try{ cppcms::session_interface s1(pool,jar); s1.load(); s1.set("other","keep"); s1.store_data(key,u); s1.save(); saved=true; }catch(std::exception const &e){ why=e.what(); }
		if(saved){ try{ cppcms::session_interface s2(pool,jar); s2.load(); User back; s2.fetch_data(key,back); if(canon(back)!=canon(u)||s2.get("other","")!="keep") vf::violation("convenience:session-size-edge","an object accepted by store_data + save comes back different in the next request ["+cs+"]","\"case\":"+vf::jstr(cs)); else vf::guard("session_size_edges_roundtrip"); }
			catch(std::exception const &e){ vf::violation("convenience:session-size-edge",std::string("store_data + save accepted the object, but the next request cannot load the session: ")+e.what()+" ["+cs+"]","\"case\":"+vf::jstr(cs)); } }
		else vf::guard("session_size_edges_refused"); vf::outcome("szedge|"+std::to_string(which)+(saved?"|saved":"|refused")); } }
}

template<class T> bool replay_t(const char *want,const std::string &tname,const std::string &bytes){ if(tname!=want) return false; std::string c=load_case<T>(want,bytes); printf("replay: type=%s outcome=%s\n",want,c.substr(0,200).c_str()); return true; }
static void replay(const std::string &file){ std::ifstream f(file); std::stringstream ss; ss<<f.rdbuf(); std::string l=ss.str(); std::string t=vf::jfield(l,"type"),b=vf::unhex(vf::jfield(l,"archive_hex")); g_phase="replay";
	{ std::string ops=vf::jfield(l,"ops"); if(ops.empty()){ std::string c=vf::jfield(l,"case"); if(c.compare(0,11,"object-seq ")==0) ops=c.substr(11); }
	  if(!ops.empty()){ std::vector<int> v; std::stringstream os(ops); std::string o; while(std::getline(os,o,',')) for(int k=0;k<N_OBJ_OPS;k++) if(o==OBJ_OPS[k]) v.push_back(k);
		vf::eval(); std::string r=obj_run(v,true); printf("replay: ops=%s result=%s\n",ops.c_str(),r.empty()?"agrees with the model":r.c_str()); if(!r.empty()) vf::violation("object-seq:"+g_div_op,"sequence ["+ops+"] on one archive object: "+r,"\"ops\":"+vf::jstr(ops)); vf::sample("{\"phase\":\"replay\",\"ops\":"+vf::jstr(ops)+"}"); return; } }
	if(t.empty()){ std::string c=vf::jfield(l,"case"); size_t a=c.find(' '),z=c.rfind(' '); if(a!=std::string::npos){ t=c.substr(0,a); b=vf::unhex(c.substr(z+1)); } }
#define RP(T,name) if(replay_t<T>(name,t,b)) return;
	RP(char,"char") RP(int,"int") RP(short,"short") RP(unsigned long long,"uint64") RP(double,"double") RP(std::string,"string") RP(VecI,"vector<int>") RP(std::vector<char>,"vector<char>") RP(std::vector<double>,"vector<double>") RP(VecS,"vector<string>")
	RP(ListPIS,"list<pair<int,string>>") RP(MapSVI,"map<string,vector<int>>") RP(std::set<int>,"set<int>") RP(std::multiset<std::string>,"multiset<string>") RP(MMapIS,"multimap<int,string>") RP(MapSI,"map<string,int>") RP(PStr,"shared_ptr<string>") RP(json::value,"json::value")
	RP(User,"User") RP(Int3,"int[3]") RP(Str2,"string[2]") RP(VecVecS,"vector<vector<string>>") RP(MapSMapIS,"map<string,map<int,string>>") RP(PVecS,"shared_ptr<vector<string>>") RP(VecPStr,"vector<shared_ptr<string>>") RP(VecUser,"vector<User>") RP(PairIVD,"pair<int,vector<double>>")
	fprintf(stderr,"replay: unknown type %s\n",t.c_str()); }

int main(int argc,char **argv){
	vf::init(argc,argv,"C19","exploration");
	if(!vf::C().replay_file.empty()){ replay(vf::C().replay_file); return vf::finish(); }
	int depth=vf::thorough()?6:4; int odepth=vf::thorough()?6:5;
	vf::C().rule="(a) every value of a generated universe for 27 types (element counts 0,1,2,3; atoms incl. NUL strings, 300-byte string, NaN-free doubles, null/non-null pointers, user class, fixed arrays, json) saved and loaded; (b) for every such archive: every truncation, +1..4 trailing bytes, every 4-byte length field set to each of {0,1,2,3,4,5,8,cur-1,cur+1,rem-1..rem+5,2^31-1,2^32-4..2^32-1}, every byte replaced by 00/01/ff; (c) every sequence of <= "+std::to_string(depth)+" tokens from {12 length fields, 00, 01, 'abcd', 4 eight-byte counts} loaded as 9 types. Each load is compared with a strict reference chunk reader. (d) user objects through session_interface::store_data/fetch_data (incl. every truncation of the stored value; objects serialized to 2^21-2..2^21+1 bytes and keys of 1022..1025 bytes: refused, or loaded back by the next request) and cache_interface::store_data/fetch_data. (e) every sequence of <= "+std::to_string(odepth)+" operations from {save int/string, load int/string/pair, operator&, mode(load), mode(save), reset(), str(image A/B/empty), copy, move, assign} on ONE archive object, compared step by step (load results, mode(), str(), eof(), next_chunk_size()) with a (bytes, cursor, mode) model. distinct = distinct (type, outcome class incl. loaded value); non-trivial = non-empty archive in which at least one chunk header was well-formed or the load succeeded";
	vf::assume("the strict chunk reader ([u32 little-endian length][bytes], length <= bytes remaining) is the format definition; json chunks are parsed with json::value::load");
	vf::assume("throwing any std::exception on malformed input is admissible");
	int np=16;
	vf::parallel(np,np,[&](int sh){ all_types(sh,np); token_pass(depth,sh,np); object_pass(odepth,sh,np); if(sh==0) convenience_pass(); if(sh==1%np) locale_pass(); },vf::thorough()?1200:300);
	vf::C().extra["token_depth"]=std::to_string(depth);
	vf::require_guard("roundtrips"); vf::require_guard("locale_roundtrips"); vf::require_guard("session_store_data_roundtrips"); vf::require_guard("cache_store_data_roundtrips"); vf::require_guard("session_damaged_values"); vf::require_guard("session_size_edges_roundtrip"); vf::require_guard("session_size_edges_refused"); vf::require_guard("lenfield_1to3_past_end"); vf::require_guard("truncation_refused"); vf::require_guard("token_archives_loaded"); vf::require_guard("object_sequences"); vf::require_guard("object_str_on_used_archive"); vf::require_guard("object_loads_ok"); vf::require_guard("object_loads_refused");
	return vf::finish();
}
