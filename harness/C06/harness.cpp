// C06 - session state carries over between requests exactly, never after it ended.
// Explicit-state search over request histories: a transition is one request (fresh session_interface over the
// pool and the browser's cookie jar: load, compare what it reads with the model, apply operations, save), a clock
// advance, a browser restart, or an attacker step replacing the session cookie. State = history replayed on a fresh
// pool/storage/jar; dedup on the canonical model state. Reference model: abstract session records keyed by the cookie
// token, with a SET of admissible deadlines (renewal inside the 10% window may or may not happen).
#include "vf.h"
#include <cppcms/session_interface.h>
#include <cppcms/session_pool.h>
#include <cppcms/session_storage.h>
#include <cppcms/http_cookie.h>
#include <cppcms/util.h>
#include <cppcms/json.h>
#include "session_memory_storage.h"
#include "session_posix_file_storage.h"
#include "session_tcp_storage.h"
#include "tcp_cache_server.h"
#include "cache_storage.h"
#include <netinet/in.h>
#include <sys/socket.h>
#include <deque>
#include <dirent.h>
#include <sys/stat.h>
#include <unordered_map>

static time_t g_now=1000000; extern "C" time_t time(time_t *t){ if(t) *t=g_now; return g_now; }
using namespace cppcms;
static const int AGE=100; static const unsigned LIMIT=40; // default session.timeout, client_size_limit

// ---- storage decorator: logs every sid that reaches the storage --------------------------------------------------
struct Deco : public sessions::session_storage { booster::shared_ptr<sessions::session_storage> in; std::vector<std::string> *bad_sids; std::set<std::string> *saved; std::map<std::string,time_t> *present; Deco(booster::shared_ptr<sessions::session_storage> s,std::vector<std::string> *b,std::set<std::string> *sv,std::map<std::string,time_t> *pr):in(s),bad_sids(b),saved(sv),present(pr){}
	void chk(const std::string &sid){ bool ok=sid.size()==32; for(size_t i=0;i<sid.size()&&ok;i++) if(!((sid[i]>='0'&&sid[i]<='9')||(sid[i]>='a'&&sid[i]<='f'))) ok=false; if(!ok) bad_sids->push_back(sid); }
	void save(std::string const &sid,time_t t,std::string const &d){ chk(sid); saved->insert(sid); (*present)[sid]=t; in->save(sid,t,d); } bool load(std::string const &sid,time_t &t,std::string &o){ chk(sid); return in->load(sid,t,o); } void remove(std::string const &sid){ chk(sid); present->erase(sid); in->remove(sid); } bool is_blocking(){ return in->is_blocking(); } };
struct DecoFactory : public sessions::session_storage_factory { booster::shared_ptr<sessions::session_storage> st; DecoFactory(booster::shared_ptr<sessions::session_storage> s):st(s){} booster::shared_ptr<sessions::session_storage> get(){ return st; } bool requires_gc(){ return false; } void gc_job(){} };
// ---- the browser ----------------------------------------------------------------------------------------------
struct Jar : public session_interface_cookie_adapter { struct C { std::string v; bool session; time_t exp; }; std::map<std::string,C> c;
	void set_cookie(http::cookie const &k){ std::string val=util::urldecode(k.value()); if(k.max_age_defined()){ if(k.max_age()==0||val.empty()){ c.erase(k.name()); return; } C x; x.v=val; x.session=false; x.exp=g_now+k.max_age(); c[k.name()]=x; } else { if(val.empty()){ c.erase(k.name()); return; } C x; x.v=val; x.session=true; x.exp=0; c[k.name()]=x; } }
	bool live(const C &x) const { return x.session||g_now<=x.exp; } // a cookie is sent up to and including its expiry instant (boundary left open by the model)
	std::string get_session_cookie(std::string const &name){ std::map<std::string,C>::iterator i=c.find(name); if(i==c.end()||!live(i->second)) return ""; return i->second.v; }
	std::set<std::string> get_cookie_names(){ std::set<std::string> s; for(std::map<std::string,C>::iterator i=c.begin();i!=c.end();++i) if(live(i->second)) s.insert(i->first); return s; }
	void restart(){ for(std::map<std::string,C>::iterator i=c.begin();i!=c.end();){ if(i->second.session) c.erase(i++); else ++i; } } };
static const char *SC="cppcms_session";

// ---- transitions --------------------------------------------------------------------------------------------------
enum Kind { REQ, TICK, RESTART, ATTACK };
struct Tr { Kind k; int op; int n; std::string name; int browser; int op2; Tr():browser(0),op2(0){} };
enum { O_NONE,O_SET_K_V1,O_SET_K_V2,O_SET_J_V1,O_ERASE_K,O_CLEAR,O_EXPOSE_K,O_HIDE_K,O_AGE10,O_DEFAGE,O_EXP_FIXED,O_EXP_RENEW,O_EXP_BROWSER,O_ONSRV1,O_ONSRV0,O_RESET,O_SET_BIG,NOPS };
static const char *OPN[]={"-","set(k,v1)","set(k,v2)","set(j,v1)","erase(k)","clear()","expose(k)","hide(k)","age(10)","default_age()","expiration(fixed)","expiration(renew)","expiration(browser)","on_server(true)","on_server(false)","reset_session()","set(k,<big>)"};
enum { A_OLD_TOKEN,A_NEVER_ISSUED,A_PATHLIKE_SHORT,A_PATHLIKE_33,A_UPPER,A_GARBAGE_I,A_GARBAGE_C,NATT, A_OTHER_BROWSER };
static const char *ATN[]={"replay-oldest-token","never-issued-sid","I../../../x","path-like-33-chars","upper-case-sid","Ixyz","C+garbage"};
struct Config { std::string location,storage,expire,label; bool with_on_server; Config():with_on_server(false){} };
static std::vector<Tr> alphabet(const Config &c){ std::vector<Tr> a; for(int o=0;o<NOPS;o++){ if((o==O_ONSRV1||o==O_ONSRV0)&&c.location!="both") continue; if(o==O_SET_BIG&&c.location=="server") continue; Tr t; t.k=REQ; t.op=o; t.n=0; t.name=std::string("request[")+OPN[o]+"]"; a.push_back(t); }
	int ticks[]={1,9,11,99,101}; for(int i=0;i<5;i++){ Tr t; t.k=TICK; t.op=0; t.n=ticks[i]; t.name="tick("+std::to_string(ticks[i])+")"; a.push_back(t); } { Tr t; t.k=RESTART; t.op=0; t.n=0; t.name="browser-restart"; a.push_back(t); }
	for(int i=0;i<NATT;i++){ Tr t; t.k=ATTACK; t.op=i; t.n=0; t.name=std::string("attacker[")+ATN[i]+"]"; a.push_back(t); } return a; }

static std::vector<Tr> alphabet2(const Config &c){ std::vector<Tr> a; int ops[]={O_NONE,O_SET_K_V1,O_SET_K_V2,O_CLEAR,O_RESET,O_EXPOSE_K,O_ERASE_K}; for(int b=0;b<2;b++){ for(int i=0;i<7;i++){ Tr t; t.k=REQ; t.op=ops[i]; t.n=0; t.browser=b; t.name="browser"+std::to_string(b)+".request["+OPN[ops[i]]+"]"; a.push_back(t); } Tr at; at.k=ATTACK; at.op=A_OTHER_BROWSER; at.n=0; at.browser=b; at.name="browser"+std::to_string(b)+".installs-the-other-browsers-session-cookie"; a.push_back(at); } int ticks[]={11,101}; for(int i=0;i<2;i++){ Tr t; t.k=TICK; t.op=0; t.n=ticks[i]; t.name="tick("+std::to_string(ticks[i])+")"; a.push_back(t); } (void)c; return a; }

// two operations in ONE request (location=both): every ordered pair of {set small, set big, erase, clear, on_server(true/false), reset_session()}
static std::vector<Tr> alphabet3(const Config &c){ std::vector<Tr> a; int ops[]={O_SET_K_V1,O_SET_BIG,O_ERASE_K,O_CLEAR,O_ONSRV1,O_ONSRV0,O_RESET}; int singles[]={O_NONE,O_SET_K_V1,O_SET_BIG,O_ONSRV1};
	for(int i=0;i<4;i++){ Tr t; t.k=REQ; t.op=singles[i]; t.n=0; t.name=std::string("request[")+OPN[singles[i]]+"]"; a.push_back(t); }
	for(int i=0;i<7;i++) for(int j=0;j<7;j++){ if(i==j) continue; Tr t; t.k=REQ; t.op=ops[i]; t.op2=ops[j]; t.n=0; t.name=std::string("request[")+OPN[ops[i]]+" + "+OPN[ops[j]]+"]"; a.push_back(t); }
	{ Tr t; t.k=TICK; t.op=0; t.n=101; t.name="tick(101)"; a.push_back(t); } { Tr t; t.k=ATTACK; t.op=A_OLD_TOKEN; t.n=0; t.name=std::string("attacker[")+ATN[A_OLD_TOKEN]+"]"; a.push_back(t); } (void)c; return a; }
// ---- the model ---------------------------------------------------------------------------------------------------------
typedef std::map<std::string,std::pair<std::string,bool> > Data; // key -> (value, exposed)
struct Rec { Data data; std::set<time_t> D; bool server; };
struct Model { std::map<std::string,Rec> rec; /* token -> record */ std::vector<std::string> issued; /* tokens in order of issue */ };
static int m_int(const Data &d,const char *k,int def){ Data::const_iterator i=d.find(k); if(i==d.end()) return def; return atoi(i->second.first.c_str()); }

struct World { bool tampered_[2]={false,false}; int cur=0; Config cfg; std::unique_ptr<session_pool> pool; Jar jars[2]; Jar &J(){ return jars[cur]; } const Jar &J() const { return jars[cur]; } bool &T(){ return tampered_[cur]; } Model M; std::vector<std::string> bad_sids; std::set<std::string> saved_sids; std::map<std::string,time_t> present; /* what the real storage holds: sid -> deadline (part of the state key, so that histories whose model states agree but whose real storage differs are not merged) */ std::string dir; std::string err,sig; };
static void fail(World &w,const std::string &sig,const std::string &what){ if(w.err.empty()){ w.err=what; w.sig=sig; } }
static std::string tok_class(const World &w,const std::string &t){ if(t.empty()) return "none"; for(size_t i=0;i<w.M.issued.size();i++) if(w.M.issued[i]==t) return "tok"+std::to_string(i); return "foreign"; }

static void build(World &w){ json::value s; s["session"]["location"]=w.cfg.location; s["session"]["timeout"]=AGE; s["session"]["expire"]=w.cfg.expire; s["session"]["client_size_limit"]=(int)LIMIT; s["session"]["cookies"]["expiration_method"]="max-age";
	if(w.cfg.location!="server"){ s["session"]["client"]["hmac"]="sha1"; s["session"]["client"]["hmac_key"]="00112233445566778899aabbccddeeff00112233"; }
	if(w.cfg.location!="client") s["session"]["server"]["storage"]=w.cfg.storage=="files"?"files":"memory";
	w.pool.reset(new session_pool(s)); if(w.cfg.location!="client"){ booster::shared_ptr<sessions::session_storage> inner; if(w.cfg.storage=="files"){ mkdir(w.dir.c_str(),0777); if(DIR *d=opendir(w.dir.c_str())){ while(struct dirent *e=readdir(d)){ if(e->d_name[0]=='.') continue; unlink((w.dir+"/"+e->d_name).c_str()); } closedir(d); } inner.reset(new sessions::session_file_storage(w.dir,2,1,false)); } else { sessions::session_memory_storage_factory f; inner=f.get(); }
		booster::shared_ptr<sessions::session_storage> deco(new Deco(inner,&w.bad_sids,&w.saved_sids,&w.present)); w.pool->storage(std::unique_ptr<sessions::session_storage_factory>(new DecoFactory(deco))); }
	w.pool->init(); }

// one request
static void request(World &w,int op,int op2=0){ std::string tok=w.J().get_session_cookie(SC); // what the browser sends
	// model: what must be read
	Data expect; bool must_alive=false,may_alive=false; std::map<std::string,Rec>::iterator r=w.M.rec.find(tok); if(r!=w.M.rec.end()){ for(std::set<time_t>::iterator d=r->second.D.begin();d!=r->second.D.end();++d){ if(*d>g_now) must_alive= must_alive||true; if(*d>=g_now) may_alive=true; } bool all_alive=true; for(std::set<time_t>::iterator d=r->second.D.begin();d!=r->second.D.end();++d) if(!(*d>g_now)) all_alive=false; must_alive=all_alive&&!r->second.D.empty(); expect=r->second.data; }
	session_interface si(*w.pool,w.J()); bool loaded=false; try{ loaded=si.load(); }catch(std::exception const &e){ fail(w,"load-throws","session load throws: "+std::string(e.what())); return; }
	Data got; { std::set<std::string> ks=si.key_set(); const char *internal[]={"_t","_h","_s","_csrf"}; for(int q=0;q<4;q++) if(si.is_set(internal[q])) ks.insert(internal[q]); for(std::set<std::string>::iterator i=ks.begin();i!=ks.end();++i) got[*i]=std::make_pair(si.get(*i),si.is_exposed(*i)); }
	bool alive;
	if(got.empty()&&!loaded){ alive=false; if(must_alive&&!expect.empty()) fail(w,"session-lost","a live session reads as empty (token "+tok_class(w,tok)+")"); }
	else { alive=true; if(!may_alive){ fail(w, r==w.M.rec.end()? (tok_class(w,tok)=="foreign"?"foreign-token-accepted":"ended-session-readable") : "expired-session-readable","request reads session data although the session "+std::string(r==w.M.rec.end()?"was cleared/reset or never existed":"has passed its deadline")+" (token "+tok_class(w,tok)+")"); return; }
		if(got!=expect){ std::string g,e; for(Data::iterator i=got.begin();i!=got.end();++i) g+=i->first+"="+i->second.first.substr(0,8)+(i->second.second?"*":"")+","; for(Data::iterator i=expect.begin();i!=expect.end();++i) e+=i->first+"="+i->second.first.substr(0,8)+(i->second.second?"*":"")+","; fail(w,"wrong-session-data","request reads {"+g+"} but the previous request left {"+e+"}"); return; }
		// the deadline set narrows to those consistent with 'alive now'
		std::set<time_t> nd; for(std::set<time_t>::iterator d=r->second.D.begin();d!=r->second.D.end();++d) if(*d>=g_now) nd.insert(*d); r->second.D=nd; }
	if(!alive&&r!=w.M.rec.end()){ std::set<time_t> nd; for(std::set<time_t>::iterator d=r->second.D.begin();d!=r->second.D.end();++d) if(*d<=g_now) nd.insert(*d); if(nd.empty()&&!expect.empty()){ /* reported above */ } r->second.D=nd; if(r->second.server||true){ /* a dead record is gone for good */ } if(!expect.empty()) w.M.rec.erase(r); r=w.M.rec.end(); }
	Data cur= alive?expect:Data(); Data copy=cur;
	// derived values the request reads
	{ int age=m_int(cur,"_t",AGE); int how=m_int(cur,"_h",w.cfg.expire=="fixed"?session_interface::fixed:w.cfg.expire=="renew"?session_interface::renew:session_interface::browser); bool os=m_int(cur,"_s",0); if(si.age()!=age) fail(w,"wrong-age","age() reads "+std::to_string(si.age())+", expected "+std::to_string(age)); if(si.expiration()!=how) fail(w,"wrong-expiration","expiration() reads "+std::to_string(si.expiration())+", expected "+std::to_string(how)); if(si.on_server()!=os) fail(w,"wrong-on-server","on_server() differs"); if(si.is_set("k")!=(cur.count("k")>0)) fail(w,"wrong-is_set","is_set differs"); }
	bool reset=false; std::string big(LIMIT+30,'B');
	int opv[2]={op,op2}; for(int oq=0;oq<2;oq++) switch(opv[oq]){ case O_NONE: break; case O_SET_K_V1: si.set("k","v1"); cur["k"].first="v1"; break; case O_SET_K_V2: si.set("k","v2"); cur["k"].first="v2"; break; case O_SET_J_V1: si.set("j","v1"); cur["j"].first="v1"; break; case O_ERASE_K: si.erase("k"); cur.erase("k"); break; case O_CLEAR: si.clear(); cur.clear(); break;
		case O_EXPOSE_K: si.expose("k"); cur["k"].second=true; break; case O_HIDE_K: si.hide("k"); cur["k"].second=false; break; case O_AGE10: si.age(10); cur["_t"].first="10"; break; case O_DEFAGE: si.default_age(); cur.erase("_t"); break;
		case O_EXP_FIXED: si.expiration(session_interface::fixed); cur["_h"].first=std::to_string((int)session_interface::fixed); break; case O_EXP_RENEW: si.expiration(session_interface::renew); cur["_h"].first=std::to_string((int)session_interface::renew); break; case O_EXP_BROWSER: si.expiration(session_interface::browser); cur["_h"].first=std::to_string((int)session_interface::browser); break;
		case O_ONSRV1: si.on_server(true); cur["_s"].first="1"; break; case O_ONSRV0: si.on_server(false); cur["_s"].first="0"; break; case O_RESET: si.reset_session(); reset=true; break; case O_SET_BIG: si.set("k",big); cur["k"].first=big; break; }
	std::set<std::string> names_before=w.J().get_cookie_names();
	try{ si.save(); }catch(std::exception const &e){ fail(w,"save-throws","session save throws: "+std::string(e.what())); return; }
	// ---- model of save ----
	std::string newtok=w.J().get_session_cookie(SC); int age=m_int(cur,"_t",AGE); int how=m_int(cur,"_h",w.cfg.expire=="fixed"?session_interface::fixed:w.cfg.expire=="renew"?session_interface::renew:session_interface::browser); bool on_server=m_int(cur,"_s",0);
	bool new_session=(copy.empty()&&!cur.empty())||reset; std::map<std::string,Rec>::iterator old= alive? w.M.rec.find(tok):w.M.rec.end();
	if(cur.empty()){ // session cleared
		if(!tok.empty()){ if(old!=w.M.rec.end()&&old->second.server) w.M.rec.erase(old); else if(w.M.rec.count(tok)&&w.M.rec[tok].server) w.M.rec.erase(tok); if(!newtok.empty()) fail(w,"cookie-not-cleared","an empty session leaves a session cookie in the browser"); } }
	else { bool unchanged=(cur==copy)&&!new_session; bool write=true; std::set<time_t> D;
		if(unchanged){ if(how==session_interface::fixed){ write=false; } else { // renew/browser: may skip while less than 10% elapsed, must renew otherwise
				bool may_skip=false,must_write=false; for(std::set<time_t>::iterator d=old->second.D.begin();d!=old->second.D.end();++d){ long delta=(long)(g_now+age-*d); if(delta<age*0.1) may_skip=true; else must_write=true; }
				if(newtok==tok&&!old->second.server){ write=false; /* same client cookie: nothing was written */ if(!may_skip) fail(w,"not-renewed","session in renew/browser mode was not renewed although more than 10% of its age had elapsed"); }
				else if(old->second.server){ // server: token stays; whether the record was rewritten shows only in later loads -> keep both possibilities
					D=old->second.D; if(may_skip&&!must_write){ D.insert(g_now+age); old->second.D=D; write=false; } }
			} }
		if(write){ bool to_server= w.cfg.location=="server"||(w.cfg.location=="both"&&(on_server||/* serialized size */ false)); (void)to_server;
			std::set<time_t> ND; if(how==session_interface::fixed&&!new_session&&old!=w.M.rec.end()) ND=old->second.D; else ND.insert(g_now+age);
			if(newtok.empty()){ fail(w,"no-cookie-after-save","a non-empty session was saved but the browser holds no session cookie"); return; }
			bool server_tok=newtok[0]=='I'; if(w.cfg.location=="server"&&!server_tok) fail(w,"wrong-backend","server-side session produced a non-sid cookie"); if(w.cfg.location=="client"&&server_tok) fail(w,"wrong-backend","client-side session produced a sid cookie"); if(w.cfg.location=="both"&&on_server&&!server_tok) fail(w,"on-server-ignored","on_server(true) session was stored in the cookie");
			if(server_tok){ bool wf=newtok.size()==33; for(size_t i=1;i<newtok.size()&&wf;i++) if(!((newtok[i]>='0'&&newtok[i]<='9')||(newtok[i]>='a'&&newtok[i]<='f'))) wf=false; if(!wf) fail(w,"malformed-sid-issued","issued session id is not 'I' + 32 lower-case hex digits: "+newtok);
				bool seen=std::find(w.M.issued.begin(),w.M.issued.end(),newtok)!=w.M.issued.end(); bool had_server= old!=w.M.rec.end()&&old->second.server;
				if(new_session||!had_server){ if(seen) fail(w,"sid-reused","a new or reset session received a session id that had been issued before"); if(had_server&&new_session){ w.M.rec.erase(tok); } else if(!tok.empty()&&tok[0]=='I'&&w.M.rec.count(tok)&&reset) w.M.rec.erase(tok); }
				else { if(newtok!=tok) fail(w,"sid-changed","an existing server-side session changed its id without reset"); } }
			else { // moved to / stayed in the cookie: a previous server record must be gone
				if(old!=w.M.rec.end()&&old->second.server) w.M.rec.erase(tok); }
			if(std::find(w.M.issued.begin(),w.M.issued.end(),newtok)==w.M.issued.end()) w.M.issued.push_back(newtok);
			Rec nr; nr.data=cur; nr.D=ND; nr.server=server_tok; w.M.rec[newtok]=nr; } }
	// exposed cookies in step with the session (checked only in histories where the attacker has not replaced the session cookie: afterwards the other cookies in that jar are unrelated to the session that is loaded)
	if(!w.T()) for(Data::iterator i=cur.begin();i!=cur.end();++i){ std::string cn=std::string(SC)+"_"+i->first; std::string cv=w.J().get_session_cookie(cn); bool was=copy.count(i->first)&&copy[i->first].second&&copy[i->first].first==i->second.first; if(i->second.second){ if(!was&&cv!=i->second.first) fail(w,"exposed-cookie-missing","key "+i->first+" was exposed but its cookie is "+(cv.empty()?"absent":"stale")); if(!cv.empty()&&cv!=i->second.first) fail(w,"exposed-cookie-stale","exposed cookie of "+i->first+" holds another value"); } else if(!cv.empty()) fail(w,"hidden-cookie-present","key "+i->first+" is not exposed but its cookie is still in the browser"); }
	if(!w.T()) for(Data::iterator i=copy.begin();i!=copy.end();++i) if(!cur.count(i->first)){ std::string cn=std::string(SC)+"_"+i->first; if(!w.J().get_session_cookie(cn).empty()) fail(w,"erased-cookie-present","key "+i->first+" was removed but its exposed cookie is still in the browser"); }
	if(!w.bad_sids.empty()) fail(w,"malformed-sid-used","a session id not of the issued form reached the storage: "+vf::vis(w.bad_sids[0]));
}
static void attack(World &w,int a){ w.T()=true; Jar::C x; x.session=true; x.exp=0; switch(a){ case A_OLD_TOKEN: if(w.M.issued.empty()) return; x.v=w.M.issued[0]; break; case A_NEVER_ISSUED: x.v="I0123456789abcdef0123456789abcdef"; break; case A_PATHLIKE_SHORT: x.v="I../../../x"; break; case A_PATHLIKE_33: x.v="I../../../../../../../../../../xy"; x.v.resize(33,'z'); break; case A_UPPER: x.v="I0123456789ABCDEF0123456789ABCDEF"; break; case A_GARBAGE_I: x.v="Ixyz"; break; case A_GARBAGE_C: x.v="CAAAAAAAAAAAAAAAAAAAAAAAAAAAAAAAAAAAAAAAAAA"; break; case A_OTHER_BROWSER: { std::string o=w.jars[1-w.cur].get_session_cookie(SC); if(o.empty()) return; x.v=o; w.tampered_[0]=w.tampered_[1]=true; /* two jars now share one session: their exposed cookies are no longer tied to one history */ break; } } w.J().c[SC]=x; }

static std::string canon(const World &w){ std::ostringstream o; std::set<std::string> current; for(int b=0;b<2;b++){ Jar &jr=const_cast<Jar&>(w.jars[b]); std::string tok=jr.get_session_cookie(SC); current.insert(tok); o<<"jar"<<b<<":"<<tok_class(w,tok)<<(w.tampered_[b]?"!":""); std::map<std::string,Jar::C>::const_iterator jc=jr.c.find(SC); if(jc!=jr.c.end()){ if(jc->second.session) o<<"/s"; else { long rel=(long)(jc->second.exp-g_now); o<<"/"<<(rel<0?-1:rel); } }
		for(std::map<std::string,Jar::C>::const_iterator i=jr.c.begin();i!=jr.c.end();++i) if(i->first!=SC&&jr.live(i->second)) o<<"|"<<i->first<<"="<<i->second.v<<(i->second.session?"s":std::to_string((long)(i->second.exp-g_now))); o<<" "; }
	for(size_t t=0;t<w.M.issued.size();t++){ std::map<std::string,Rec>::const_iterator r=w.M.rec.find(w.M.issued[t]); if(r==w.M.rec.end()) continue; bool any=false; for(std::set<time_t>::const_iterator d=r->second.D.begin();d!=r->second.D.end();++d) if(*d>=g_now) any=true; if(!any) continue; bool cur=current.count(w.M.issued[t])>0; bool oldest=(t==0); if(!cur&&!oldest&&!r->second.server) continue; o<<";"<<(cur?"cur":oldest?"old0":"rec")<<(r->second.server?"S":"C")<<"{"; for(Data::const_iterator i=r->second.data.begin();i!=r->second.data.end();++i) o<<i->first<<"="<<i->second.first.substr(0,3)<<(i->second.second?"*":"")<<","; o<<"}d"; for(std::set<time_t>::const_iterator d=r->second.D.begin();d!=r->second.D.end();++d) o<<(long)(*d-g_now)<<","; }
	o<<";stored:"; for(size_t t=0;t<w.M.issued.size();t++){ const std::string &tk=w.M.issued[t]; if(tk.size()<2||tk[0]!='I') continue; std::map<std::string,time_t>::const_iterator p=w.present.find(tk.substr(1)); if(p!=w.present.end()&&p->second>=g_now) o<<(current.count(tk)?"cur":t==0?"old0":"x")<<(w.M.rec.count(tk)?"":"?")<<","; }
	return o.str(); }

struct Run { bool ok; std::string canon,what,sig; };
static Run run_history(const Config &cfg,const std::vector<Tr> &alpha,const std::vector<int> &h,const std::string &dir,std::vector<std::string> *trace=0){ Run r; r.ok=true; g_now=1000000; World w; w.cfg=cfg; w.dir=dir; build(w);
	for(size_t i=0;i<h.size();i++){ const Tr &t=alpha[h[i]]; w.cur=t.browser; switch(t.k){ case REQ: request(w,t.op,t.op2); break; case TICK: g_now+=t.n; break; case RESTART: w.J().restart(); break; case ATTACK: attack(w,t.op); break; } if(trace) trace->push_back(t.name+" => "+canon(w)); if(!w.err.empty()){ r.ok=false; r.what=w.err+" (at step "+std::to_string(i+1)+": "+t.name+")"; r.sig=w.sig; return r; } }
	// audit: one more read-only request per browser
	for(int b=0;b<(cfg.label.find("two-browsers")!=std::string::npos?2:1);b++){ w.cur=b; request(w,O_NONE); if(!w.err.empty()) break; } if(!w.err.empty()){ r.ok=false; r.what=w.err+" (in the audit request after the history)"; r.sig=w.sig; return r; }
	r.canon=canon(w); return r; }
static std::string hist_str(const std::vector<Tr> &a,const std::vector<int> &h){ std::string s; for(size_t i=0;i<h.size();i++){ if(i) s+=" ; "; s+=a[h[i]].name; } return s; }

static std::vector<Tr> alphabet_for(const Config &cfg){ if(cfg.label.find("two-ops")!=std::string::npos) return alphabet3(cfg); return cfg.label.find("two-browsers")!=std::string::npos? alphabet2(cfg):alphabet(cfg); }
static void bfs(const Config &cfg,int maxdepth,double deadline_s,const std::string &dir){ std::vector<Tr> alpha=alphabet_for(cfg); std::unordered_map<std::string,std::vector<int> > seen; std::deque<std::pair<std::string,int> > fr; Run r0=run_history(cfg,alpha,std::vector<int>(),dir); if(!r0.ok){ vf::violation(cfg.label+":"+r0.sig,r0.what+" [empty history, "+cfg.label+"]","\"config\":"+vf::jstr(cfg.label)+",\"history\":[]"); return; } seen[r0.canon]=std::vector<int>(); fr.push_back(std::make_pair(r0.canon,0)); uint64_t states=1,trans=0; int depth_done=0; bool complete=true;
	while(!fr.empty()){ std::pair<std::string,int> cur=fr.front(); if(cur.second>=maxdepth) break; if(cur.second>depth_done){ depth_done=cur.second; } if(vf::elapsed()>deadline_s){ complete=false; vf::C().exhaustive=false; break; } fr.pop_front(); std::vector<int> h=seen[cur.first];
		for(size_t op=0;op<alpha.size();op++){ h.push_back(op); vf::announce(cfg.label+" "+hist_str(alpha,h)); Run r=run_history(cfg,alpha,h,dir); trans++; vf::eval(); if(!r.ok){ std::string hs; for(size_t i=0;i<h.size();i++) hs+=(i?",":"")+std::to_string(h[i]); vf::violation(cfg.label+":"+r.sig,r.what+" [history: "+hist_str(alpha,h)+"; "+cfg.label+"]","\"config\":"+vf::jstr(cfg.label)+",\"history\":["+hs+"],\"history_text\":"+vf::jstr(hist_str(alpha,h))); }
			else { if(!seen.count(r.canon)){ seen[r.canon]=h; fr.push_back(std::make_pair(r.canon,cur.second+1)); states++; if(states%499==1) vf::sample("{\"config\":"+vf::jstr(cfg.label)+",\"history\":"+vf::jstr(hist_str(alpha,h))+",\"state\":"+vf::jstr(r.canon)+"}",8); } vf::outcome(cfg.label+r.canon); } h.pop_back(); } }
	if(fr.empty()) vf::guard(("bfs_fixpoint:"+cfg.label).c_str()); vf::guard(("bfs_depth:"+cfg.label).c_str(),complete? (fr.empty()?depth_done+1:maxdepth):depth_done); vf::C().states+=states; vf::C().transitions+=trans; vf::C().traces+=trans+1; }
static void nodedup(const Config &cfg,int depth,const std::string &dir){ std::vector<Tr> alpha=alphabet_for(cfg); std::vector<int> h; std::function<void(int)> rec=[&](int d){ if(d==depth){ Run r=run_history(cfg,alpha,h,dir); vf::eval(); vf::C().traces++; vf::guard("nodedup_sequences"); if(!r.ok){ std::string hs; for(size_t i=0;i<h.size();i++) hs+=(i?",":"")+std::to_string(h[i]); vf::violation(cfg.label+":"+r.sig,r.what+" [history: "+hist_str(alpha,h)+"; "+cfg.label+"]","\"config\":"+vf::jstr(cfg.label)+",\"history\":["+hs+"]"); } return; } for(size_t op=0;op<alpha.size();op++){ h.push_back(op); rec(d+1); h.pop_back(); } }; rec(0); }
// damaged records handed back by the storage: load must throw cppcms_error or yield a well-formed map, never read outside
// ---- the session storages as state machines (the narrowest seam below session_interface) ---------------------------------
// Every sequence of <= depth operations {save(sid, data, deadline), load(sid), remove(sid), tick, gc} over two sids on ONE storage object
// (memory and files), from two starting states (empty; seven already-expired other sessions, more than one short_gc pass removes),
// against a plain map: a load returns exactly the last saved (data, deadline) while the deadline is in the future, nothing after
// remove or after the deadline; saving or removing one sid never changes what another sid loads.
struct SOp { int kind; /*0 save,1 load,2 remove,3 tick,4 gc*/ int sid; int dl; char data; int n; std::string name; };
static std::vector<SOp> salphabet(bool with_gc){ std::vector<SOp> a; const int dls[]={5,10}; for(int s=0;s<2;s++) for(int d=0;d<2;d++) for(int v=0;v<2;v++){ SOp o; o.kind=0; o.sid=s; o.dl=dls[d]; o.data=(char)('x'+v); o.n=0; o.name="save(s"+std::to_string(s+1)+","+std::string(1,o.data)+",now+"+std::to_string(o.dl)+")"; a.push_back(o); }
	for(int s=0;s<2;s++){ SOp o; o.kind=1; o.sid=s; o.dl=0; o.data=0; o.n=0; o.name="load(s"+std::to_string(s+1)+")"; a.push_back(o); o.kind=2; o.name="remove(s"+std::to_string(s+1)+")"; a.push_back(o); }
	int ticks[]={3,6}; for(int i=0;i<2;i++){ SOp o; o.kind=3; o.sid=0; o.dl=0; o.data=0; o.n=ticks[i]; o.name="tick("+std::to_string(ticks[i])+")"; a.push_back(o); } if(with_gc){ SOp o; o.kind=4; o.sid=0; o.dl=0; o.data=0; o.n=0; o.name="gc"; a.push_back(o); } return a; }
static const char *SSID[2]={"0123456789abcdef0123456789abcdef","fedcba9876543210fedcba9876543210"};
static void storage_pass(int sh,int n,int depth_mem,int depth_file,const std::string &dir){ uint64_t tickc=0;
	// network storage: two in-process cache servers keeping sessions in memory storages, one tcp_storage client (sids are spread over the servers); the servers live for
	// the whole pass, every sequence starts by removing the sids it uses and verifying that they are gone
	std::vector<std::unique_ptr<cppcms::impl::tcp_cache_service> > nsrv; std::unique_ptr<sessions::tcp_storage> nclient; { std::vector<std::string> ips; std::vector<int> ports; for(int i=0;i<2;i++){ int port=0; for(int a=0;a<200;a++){ port=20000+((getpid()*5+i*1777+a*4099)%40000); int sck=socket(AF_INET,SOCK_STREAM,0); sockaddr_in ad; memset(&ad,0,sizeof ad); ad.sin_family=AF_INET; ad.sin_port=htons(port); ad.sin_addr.s_addr=htonl(INADDR_LOOPBACK); int r=bind(sck,(sockaddr*)&ad,sizeof ad); ::close(sck); if(r==0) break; } ports.push_back(port); ips.push_back("127.0.0.1");
			booster::shared_ptr<sessions::session_storage_factory> sf(new sessions::session_memory_storage_factory()); nsrv.push_back(std::unique_ptr<cppcms::impl::tcp_cache_service>(new cppcms::impl::tcp_cache_service(cppcms::impl::thread_cache_factory(0),sf,1,"127.0.0.1",port))); } usleep(50000); nclient.reset(new sessions::tcp_storage(ips,ports)); }
	// epoch: the same sequences with the clock in 2039 (beyond 2^31 seconds), one level shallower
	for(int epoch=0;epoch<2;epoch++) for(int kind=0;kind<3;kind++) for(int prologue=0;prologue<2;prologue++){ const time_t BASE= epoch? (time_t)2200000000LL : (time_t)1000000; bool files=kind==1,net=kind==2; int depth=(files?depth_file:net?depth_file+1:depth_mem)-epoch; std::vector<SOp> A=salphabet(files); std::vector<int> h;
		std::function<void(int)> rec=[&](int d){ if(d>0){ vf::eval(); g_now=BASE; std::string hs; for(size_t i=0;i<h.size();i++){ if(i) hs+=" ; "; hs+=A[h[i]].name; } std::string cs=std::string(files?"files":net?"network":"memory")+" storage, "+(epoch?"clock in 2039, ":"")+"start="+(prologue?"7 expired sessions":"empty")+" ["+hs+"]"; vf::announce("storage-seq "+cs);
				booster::shared_ptr<sessions::session_storage> st; sessions::session_memory_storage_factory mf; std::unique_ptr<sessions::session_file_storage> fsobj;
				if(net){ std::string fl; for(int q=0;q<2&&fl.empty();q++){ nclient->remove(SSID[q]); time_t t0; std::string v0; if(nclient->load(SSID[q],t0,v0)) fl="a removed session is still loadable at the start of the sequence"; } for(int i=0;i<7&&fl.empty();i++){ char sid[40]; snprintf(sid,sizeof sid,"e%031d",i); nclient->remove(sid); } if(!fl.empty()){ vf::violation("storage-seq:network:reset",fl+" ["+cs+"]","\"case\":"+vf::jstr(cs)); return; } }
				if(files){ mkdir(dir.c_str(),0777); if(DIR *dd=opendir(dir.c_str())){ while(struct dirent *e=readdir(dd)){ if(e->d_name[0]=='.') continue; unlink((dir+"/"+e->d_name).c_str()); } closedir(dd); } fsobj.reset(new sessions::session_file_storage(dir,2,1,false)); } else if(!net) st=mf.get();
				sessions::session_storage &S= files? static_cast<sessions::session_storage&>(*fsobj) : net? static_cast<sessions::session_storage&>(*nclient) : *st; std::map<std::string,std::pair<std::string,time_t> > M; std::string fail;
				if(prologue){ for(int i=0;i<7;i++){ char sid[40]; snprintf(sid,sizeof sid,"e%031d",i); S.save(sid,g_now+1,"old"); M[sid]=std::make_pair(std::string("old"),g_now+1); } g_now+=2; }
				auto check_load=[&](const std::string &sid,const char *when){ time_t to=0; std::string v="UNTOUCHED"; bool ok=false; try{ ok=S.load(sid,to,v); }catch(std::exception const &e){ fail=std::string("load throws ")+e.what(); return; } std::map<std::string,std::pair<std::string,time_t> >::iterator m=M.find(sid);
					bool must= m!=M.end()&&m->second.second>g_now, may= m!=M.end()&&m->second.second>=g_now; if(ok&&!may) fail=std::string(when)+": load("+sid.substr(0,4)+"..) returns a session that was "+(m==M.end()?"removed or never saved":"saved with a deadline that has passed"); else if(!ok&&must) fail=std::string(when)+": load("+sid.substr(0,4)+"..) finds nothing although the session was saved with deadline now+"+std::to_string((long)(m->second.second-g_now)); else if(ok&&(v!=m->second.first||to!=m->second.second)) fail=std::string(when)+": load("+sid.substr(0,4)+"..) returns data/deadline of another save"; if(ok) vf::guard("storage_loads_hit"); else vf::guard("storage_loads_miss"); };
				for(size_t i=0;i<h.size()&&fail.empty();i++){ const SOp &o=A[h[i]]; switch(o.kind){ case 0: S.save(SSID[o.sid],g_now+o.dl,std::string(3,o.data)); M[SSID[o.sid]]=std::make_pair(std::string(3,o.data),g_now+o.dl); break; case 1: check_load(SSID[o.sid],("step "+std::to_string(i+1)).c_str()); break; case 2: S.remove(SSID[o.sid]); M.erase(SSID[o.sid]); break; case 3: g_now+=o.n; break; case 4: if(files) fsobj->gc(); break; } }
				if(fail.empty()){ check_load(SSID[0],"audit"); if(fail.empty()) check_load(SSID[1],"audit"); if(fail.empty()&&prologue) for(int i=0;i<7&&fail.empty();i++){ char sid[40]; snprintf(sid,sizeof sid,"e%031d",i); check_load(sid,"audit"); } }
				if(!fail.empty()){ vf::violation(std::string("storage-seq:")+(files?"files":net?"network":"memory")+":"+(fail.find("finds nothing")!=std::string::npos?"session-lost":fail.find("returns a session")!=std::string::npos?"ended-session-readable":"wrong-data"),fail+" ["+cs+"]","\"case\":"+vf::jstr(cs)); }
				vf::guard("storage_sequences"); if(net) vf::guard("storage_sequences_network"); if(epoch) vf::guard("storage_sequences_after_2038"); vf::C().traces++; vf::C().transitions+=h.size(); if(d==depth&&vf::sample_tick(tickc,30011)) vf::sample("{\"storage\":"+vf::jstr(files?"files":net?"network":"memory")+",\"sequence\":"+vf::jstr(hs)+",\"result\":\"every load agrees with the map model\"}",40); }
			if(d==depth) return; if(vf::deadline_reached()){ vf::C().exhaustive=false; return; } for(size_t o=0;o<A.size();o++){ if(d==0&&(int)((o+kind+prologue+epoch)%n)!=sh) continue; h.push_back((int)o); rec(d+1); h.pop_back(); } };
		rec(0); }
	nclient.reset(); for(size_t i=0;i<nsrv.size();i++) nsrv[i]->stop(); nsrv.clear(); }

static std::map<std::string,time_t> g_dummy_present;
static void damaged_records(){ Jar jar; json::value s; s["session"]["location"]="server"; s["session"]["server"]["storage"]="memory"; s["session"]["timeout"]=AGE; s["session"]["expire"]="renew"; session_pool pool(s); sessions::session_memory_storage_factory f; booster::shared_ptr<sessions::session_storage> st=f.get(); std::vector<std::string> bad; std::set<std::string> sv; booster::shared_ptr<sessions::session_storage> deco(new Deco(st,&bad,&sv,&g_dummy_present)); pool.storage(std::unique_ptr<sessions::session_storage_factory>(new DecoFactory(deco))); pool.init(); g_now=1000000;
	{ session_interface si(pool,jar); si.load(); si.set("key","value"); si.set("other",std::string(70,'z')); si.expose("key"); si.save(); } std::string tok=jar.get_session_cookie(SC); std::string sid=tok.substr(1); time_t to; std::string good; st->load(sid,to,good);
	auto probe=[&](const std::string &blob,const std::string &how){ vf::eval(); std::string *heap=new std::string(blob.data(),blob.size()); st->save(sid,g_now+50,*heap); delete heap; session_interface si(pool,jar); try{ si.load(); std::set<std::string> ks=si.key_set(); for(std::set<std::string>::iterator i=ks.begin();i!=ks.end();++i) if(i->size()>blob.size()||si.get(*i).size()>blob.size()) vf::violation("damaged-record:oversized-entry","a damaged stored record yields an entry larger than the record ("+how+")","\"case\":"+vf::jstr(how)); vf::guard("damaged_loaded"); }catch(cppcms_error const &){ vf::guard("damaged_refused"); }catch(std::exception const &e){ vf::violation("damaged-record:other-exception","a damaged stored record raises "+std::string(e.what())+" ("+how+")","\"case\":"+vf::jstr(how)); } };
	for(size_t n=0;n<=good.size();n++) probe(good.substr(0,n),"truncated to "+std::to_string(n)); uint32_t vals[]={0,1,0x3ff,0x400,0x7ff,0xffffffffu,0x80000000u,0x7fffffffu,0xfffffc00u,0x000ffc00u}; for(size_t off=0;off+4<=good.size();off++) for(int v=0;v<10;v++){ std::string m=good; memcpy(&m[off],&vals[v],4); probe(m,"u32@"+std::to_string(off)+"="+std::to_string(vals[v])); } }

int main(int argc,char **argv){ vf::init(argc,argv,"C06","model_checking"); bool th=vf::thorough(); std::vector<Config> cfgs; const char *loc[]={"client","server","both"}; const char *ex[]={"fixed","renew","browser"};
	for(int l=0;l<3;l++) for(int e=0;e<3;e++) for(int s=0;s<2;s++){ if(l==0&&s==1) continue; if(s==1&&!(th||(l==1&&e==1))) continue; Config c; c.location=loc[l]; c.expire=ex[e]; c.storage=s?"files":"memory"; c.label=c.location+"/"+c.expire+(l?"/"+c.storage:""); cfgs.push_back(c); }
	{ const char *tl[]={"client","server","both"}; const char *te[]={"renew","renew","fixed"}; for(int i=0;i<3;i++){ Config c; c.location=tl[i]; c.expire=te[i]; c.storage="memory"; c.label=c.location+"/"+c.expire+(i?"/memory":"")+"/two-browsers"; cfgs.push_back(c); } }
	{ const char *te[]={"fixed","renew"}; for(int i=0;i<2;i++){ Config c; c.location="both"; c.expire=te[i]; c.storage="memory"; c.label="both/"+c.expire+"/memory/two-ops"; cfgs.push_back(c); } }
	if(!vf::C().replay_file.empty()){ std::ifstream f(vf::C().replay_file); std::stringstream ss; ss<<f.rdbuf(); std::string l=ss.str(); std::string label=vf::jfield(l,"config"); size_t p=l.find("\"history\":["); std::vector<int> h; if(p!=std::string::npos){ size_t e=l.find(']',p); h=vf::parse_choices(l.substr(p+11,e-p-11)); } for(size_t i=0;i<cfgs.size();i++) if(cfgs[i].label==label){ std::vector<std::string> tr; Run r=run_history(cfgs[i],alphabet_for(cfgs[i]),h,vf::scratch_dir()+"/replay",&tr); for(size_t k=0;k<tr.size();k++) printf("  %s\n",tr[k].c_str()); printf("replay: %s\n",r.ok?"history conforms":r.what.c_str()); if(!r.ok) vf::violation(label+":"+r.sig,r.what,"\"config\":"+vf::jstr(label)); } return vf::finish(); }
	int depth=th?5:4; int nd=th?3:2; double dl=vf::C().budget_s*0.75;
	vf::C().rule="transition = one request over the real session_interface/session_pool with a simulated browser jar (load, compare everything it reads with the model, apply one of 17 operations, save), a clock advance {1,9,11,99,101}, a browser restart, or one of 7 attacker cookie replacements; configurations location {client,server,both} x expire {fixed,renew,browser} x storage {memory, files}; three two-browser configurations (each browser: 7 operations, stealing the other browser's session cookie; ticks 11/101) to depth 4 (5); two two-operations-per-request configurations (location=both: 4 single operations + all 42 ordered pairs of {set small, set big, erase, clear, on_server(true), on_server(false), reset_session()} in one request, tick 101, attacker replaying the oldest token) to depth 3 (4); state = history replayed on a fresh pool, dedup on the canonical model (jar, live records, deadline sets relative to now); plus the storages themselves as state machines (memory: every sequence of <= 5 (6) of 14 operations {save 2 sids x 2 data x 2 deadlines, load, remove, tick 3/6}; files: <= 3 (4) of 15 incl. gc; network (two cache servers with memory storages behind one tcp_storage client): <= 4 (5) of 14; from an empty storage and from one holding 7 expired sessions; against a plain map), a no-dedup pass and damaged stored records (every truncation, every 4-byte window set to 10 values). distinct = (configuration, canonical state)";
	vf::assume("virtual clock via interposed time(); at now == deadline either verdict is accepted; in renew/browser mode an unchanged session may or may not be renewed while less than 10% of its age has elapsed (set of admissible deadlines)"); vf::assume("session ids come from the real /dev/urandom; the model is keyed by the tokens actually issued, so no value is assumed; unpredictability itself is not decidable by enumeration - only freshness (never issued before) is checked"); vf::assume("replay of an old client-side cookie is accepted by design (stateless); only server-side ids must become unusable");
	vf::parallel(cfgs.size()+1,16,[&](int i){ if(i==(int)cfgs.size()){ damaged_records(); return; } std::string dir=vf::scratch_dir()+"/s"+std::to_string(i); bool two=cfgs[i].label.find("two-browsers")!=std::string::npos; bool tops=cfgs[i].label.find("two-ops")!=std::string::npos; bfs(cfgs[i],tops?(th?4:3):two?(th?5:4):depth,dl,dir); if(tops) return; if(cfgs[i].storage=="memory"&&!two) nodedup(cfgs[i],nd,dir); },th?1500:115);
	vf::parallel(16,16,[&](int sh){ storage_pass(sh,16,th?6:5,th?4:3,vf::scratch_dir()+"/stseq"+std::to_string(sh)); },th?1500:115);
	vf::C().extra["bound"]="{\"bfs_max_depth\":"+std::to_string(depth)+",\"nodedup_depth\":"+std::to_string(nd)+",\"configs\":"+std::to_string(cfgs.size())+"}";
	vf::require_guard("nodedup_sequences"); vf::require_guard("damaged_refused"); vf::require_guard("storage_sequences"); vf::require_guard("storage_sequences_network"); vf::require_guard("storage_loads_hit"); vf::require_guard("storage_loads_miss");
	return vf::finish(); }
