// C03 - the client receives exactly the bytes the application wrote, once and in order.
// The wire harness with the server side's writev() interposed: write programs over {w(n), flush, setbuf(k)} x io modes
// x gzip x copy-to-cache x async buffering x protocols; each socket write may accept everything, 1, 2, half, all-1
// bytes or report would-block (non-blocking modes). Oracle: an independent de-framer (HTTP identity / Content-Length
// / chunked, FastCGI STDOUT records + END_REQUEST, SCGI until close, zlib inflate) + the fixed byte pattern.
#include "echo_app.h"
#include <cppcms/cache_interface.h>
#include <cppcms/http_cookie.h>
#include <zlib.h>

using namespace wire;
static inline char pat(size_t i){ return (char)('A'+((i*131+(i>>8)*7+(i>>16)*3)%53)); }
struct Step { char op; long n; };
static std::vector<Step> parse_prog(const std::string &s){ std::vector<Step> v; size_t p=0; while(p<s.size()){ Step st; st.op=s[p++]; st.n=0; while(p<s.size()&&isdigit((unsigned char)s[p])) st.n=st.n*10+(s[p++]-'0'); if(p<s.size()&&s[p]=='.') p++; v.push_back(st); } return v; }
static std::atomic<long> g_out_calls(0);
// the application: its behaviour is scripted by the query string
struct Script { std::vector<Step> prog; std::string mode,cache; bool full; };
static Script script_of(cppcms::http::request &rq){ Script s; s.prog=parse_prog(rq.get("prog")); s.mode=rq.get("mode"); s.cache=rq.get("cache"); s.full=rq.get("full")!="0"; return s; }
static const char *RAW_HDR="Status: 200 OK\r\nContent-Type: text/plain\r\nX-A: 1\r\nSet-Cookie: c=v; Version=1\r\n\r\n";
class out_app : public cppcms::application { public: out_app(cppcms::service &s):cppcms::application(s){}
	void main(std::string){ g_out_calls++; Script s=script_of(request()); typedef cppcms::http::response R; bool raw= s.mode=="raw";
		response().io_mode(s.mode=="normal"?R::normal: raw?R::raw:R::nogzip); if(!raw){ response().set_plain_text_header(); response().set_header("X-A","1"); response().set_cookie(cppcms::http::cookie("c","v")); }
		std::string key=request().get("key"); if(!s.cache.empty()){ if(cache().fetch_page(key)) return; if(s.cache=="fetch"){ response().out()<<"MISS"; return; } }
		size_t off=0; bool hdr_done=!raw; std::ostream &o=response().out(); if(raw){ o<<RAW_HDR; }
		for(size_t i=0;i<s.prog.size();i++){ Step st=s.prog[i]; if(st.op=='w'){ std::string b(st.n,0); for(long k=0;k<st.n;k++) b[k]=pat(off+k); off+=st.n; o.write(b.data(),b.size()); } else if(st.op=='c'){ for(long k=0;k<st.n;k++) o.put(pat(off+k)); off+=st.n; } else if(st.op=='f') o.flush(); else if(st.op=='s') response().setbuf(st.n); } (void)hdr_done;
		if(s.cache=="store") cache().store_page(key); } };
class aout_app : public cppcms::application { public: aout_app(cppcms::service &s):cppcms::application(s){}
	struct Run : public booster::enable_shared_from_this<Run> { booster::shared_ptr<cppcms::http::context> ctx; Script s; size_t i,off; Run():i(0),off(0){}
		void go(){ std::ostream &o=ctx->response().out(); for(;i<s.prog.size();){ Step st=s.prog[i++]; if(st.op=='w'){ std::string b(st.n,0); for(long k=0;k<st.n;k++) b[k]=pat(off+k); off+=st.n; o.write(b.data(),b.size()); } else if(st.op=='c'){ for(long k=0;k<st.n;k++) o.put(pat(off+k)); off+=st.n; } else if(st.op=='s') ctx->response().setbuf(st.n); else if(st.op=='f'){ booster::shared_ptr<Run> self=shared_from_this(); ctx->async_flush_output([self](cppcms::http::context::completion_type c){ if(c==cppcms::http::context::operation_completed) self->go(); }); return; } }
			ctx->async_complete_response(); } };
	void main(std::string){ g_out_calls++; typedef cppcms::http::response R; booster::shared_ptr<Run> r(new Run()); r->s=script_of(request()); bool raw= r->s.mode=="asyncraw"; response().io_mode(raw?R::asynchronous_raw:R::asynchronous); response().full_asynchronous_buffering(r->s.full); if(!raw){ response().set_plain_text_header(); response().set_header("X-A","1"); response().set_cookie(cppcms::http::cookie("c","v")); } else response().out()<<RAW_HDR; r->ctx=release_context(); r->go(); } };
static void mount_out(cppcms::service &srv){ srv.applications_pool().mount(cppcms::create_pool<out_app>(),cppcms::mount_point("/out")); srv.applications_pool().mount(cppcms::create_pool<aout_app>(),cppcms::mount_point("/aout"),cppcms::app::asynchronous); }

static bool gunzip(const std::string &in,std::string &out){ z_stream z; memset(&z,0,sizeof z); if(inflateInit2(&z,15+16)!=Z_OK) return false; z.next_in=(Bytef*)in.data(); z.avail_in=in.size(); char buf[65536]; int r; do{ z.next_out=(Bytef*)buf; z.avail_out=sizeof buf; r=inflate(&z,Z_NO_FLUSH); if(r!=Z_OK&&r!=Z_STREAM_END){ inflateEnd(&z); return false; } out.append(buf,sizeof buf-z.avail_out); }while(r!=Z_STREAM_END); bool all=z.avail_in==0; inflateEnd(&z); return all; }

static Server g_srv; static uint64_t n_runs=0;
struct Case { Proto p; bool async; std::string mode,prog; bool gzip,full,keepalive,http11; std::string cache; };
static std::string case_str(const Case &c){ return std::string(PROTO_NAME[c.p])+(c.http11?"/1.1":"")+(c.async?" async":" sync")+" mode="+c.mode+" prog="+c.prog+(c.gzip?" gzip":"")+(c.async?(c.full?" full-buffering":" partial-buffering"):"")+(c.keepalive?" keep-alive":"")+(c.cache.empty()?"":" cache="+c.cache); }
static Req make_req(const Case &c,const std::string &cache){ Req r; r.method="GET"; r.script=c.async?"/aout":"/out"; r.path_info=""; r.raw_path=""; static long keyno=0; if(cache=="store") keyno++; r.query="prog="+c.prog+"&mode="+c.mode+"&full="+(c.full?"1":"0")+(cache.empty()?"":"&cache="+cache+"&key=k"+std::to_string(keyno)); r.headers.push_back(std::make_pair("Host","h")); if(c.gzip) r.headers.push_back(std::make_pair("Accept-Encoding","gzip")); return r; }
static size_t total_len(const std::string &prog){ std::vector<Step> v=parse_prog(prog); size_t t=0; for(size_t i=0;i<v.size();i++) if(v[i].op=='w'||v[i].op=='c') t+=v[i].n; return t; }
static void fail(const Case &c,const std::string &kind,const std::string &what,const vf::Envx &e){ std::string cs=case_str(c); vf::violation(kind+":"+PROTO_NAME[c.p]+":"+c.mode+(c.gzip?":gzip":""),what+" ["+cs+" write-answers="+e.str()+"]","\"case\":"+vf::jstr(cs)+",\"choices\":"+vf::jstr(e.str())); }
// check one response (headers + body) against what the program wrote
static bool check_body(const Case &c,const Resp &r,const vf::Envx &e,const char *which,bool headers=true){ if(r.status!=200){ fail(c,"status","response status "+std::to_string(r.status)+" ("+which+")",e); return false; }
	if(headers){ if(r.count("X-A")!=1){ fail(c,"header-count","header X-A set by the application appears "+std::to_string(r.count("X-A"))+" times ("+which+")",e); return false; } if(r.count("Set-Cookie")!=1||r.header("Set-Cookie").compare(0,3,"c=v")){ fail(c,"cookie","cookie set by the application appears "+std::to_string(r.count("Set-Cookie"))+" times or with another value ("+which+")",e); return false; } }
	std::string body=r.body; bool gz=strcasecmp(r.header("Content-Encoding").c_str(),"gzip")==0; if(gz){ std::string raw; if(!gunzip(body,raw)){ fail(c,"gzip","gzip body does not inflate cleanly to a single complete stream ("+std::string(which)+")",e); return false; } body=raw; vf::guard("gzip_responses"); }
	size_t want=total_len(c.prog); if(body.size()!=want){ fail(c,body.size()<want?"body-short":"body-long","body has "+std::to_string(body.size())+" bytes, the application wrote "+std::to_string(want)+" ("+which+")",e); return false; } for(size_t i=0;i<want;i++) if(body[i]!=pat(i)){ fail(c,"body-corrupt","body differs from what the application wrote at offset "+std::to_string(i)+" (duplication, loss or reordering) ("+which+")",e); return false; } return true; }
static void run_case(const Case &c,vf::Envx &e){ n_runs++; vf::eval(); std::string store= c.cache.empty()?"":"store"; Req r=make_req(c,store); r.keep_alive=c.keepalive; std::string bytes; std::function<bool(const std::string&)> done;
	if(c.p==HTTP){ bytes=enc_http(r,c.http11); if(c.keepalive){ Case c2=c; Req r2=make_req(c2,""); r2.keep_alive=false; r2.query="prog=w5&mode=nogzip&full=1"; r2.script="/out"; bytes+=enc_http(r2,c.http11); } } else if(c.p==SCGI) bytes=enc_scgi(r); else { bytes=enc_fcgi(r); done=fcgi_complete; }
	g_envx=&e; Exchange x=exchange(g_srv,c.p,bytes,false,5000,true,done); g_envx=0;
	if(!x.connected||!x.sent){ fail(c,"io","could not connect/send",e); return; } if(x.timed_out){ fail(c,"no-reply","no complete reply within 5 s",e); return; }
	Resp resp; if(c.p==HTTP){ resp=parse_http(x.reply,0,x.eof); if(!resp.ok){ fail(c,"framing","response is not correctly framed: "+resp.err,e); return; } if(resp.chunked) vf::guard("chunked_responses"); if(resp.has_length) vf::guard("content_length_responses"); if(resp.close_delimited) vf::guard("close_delimited_responses");
		bool kept= c.keepalive&&strcasecmp(resp.header("Connection").c_str(),"keep-alive")==0; if(c.keepalive&&!kept){ if(!resp.close_delimited&&resp.consumed!=x.reply.size()){ fail(c,"trailing-bytes","bytes after the end of a response that announced Connection: close",e); return; } vf::guard("keepalive_declined_by_server"); }
		if(kept){ if(resp.close_delimited){ fail(c,"framing","Connection: keep-alive announced without Content-Length or chunked framing",e); return; } Resp r2=parse_http(x.reply,resp.consumed,true); if(!r2.ok){ fail(c,"keepalive-next","the next request on the kept-alive connection is not answered with a well-framed response: "+r2.err,e); return; } std::string w5; for(int i=0;i<5;i++) w5+=pat(i); if(r2.body!=w5||resp.consumed+r2.consumed!=x.reply.size()){ fail(c,"keepalive-next","the next response on the kept-alive connection is wrong or followed by stray bytes",e); return; } vf::guard("keepalive_followups"); }
		else if(!c.keepalive&&resp.consumed!=x.reply.size()){ fail(c,"trailing-bytes","bytes after the end of the response",e); return; } }
	else if(c.p==SCGI){ resp=parse_cgi(x.reply); if(!resp.ok){ fail(c,"framing","SCGI response has no header block: "+resp.err,e); return; } }
	else { FcgiOut f=parse_fcgi(x.reply); if(!f.ok){ fail(c,"framing","FastCGI response framing: "+f.err,e); return; } if(!f.stdout_terminated&&false){ } if(f.consumed!=x.reply.size()){ fail(c,"trailing-bytes","bytes after END_REQUEST",e); return; } if(f.end_requests!=1||f.proto_status!=0){ fail(c,"framing","END_REQUEST count/status wrong",e); return; } if(f.max_record==65535) vf::guard("fcgi_full_size_records"); resp=parse_cgi(f.out); if(!resp.ok){ fail(c,"framing","FastCGI STDOUT has no header block: "+resp.err,e); return; } }
	if(!check_body(c,resp,e,"direct")) return;
	if(!c.cache.empty()){ Case cf=c; Req rf=make_req(cf,"fetch"); rf.script="/out"; std::string b2= c.p==HTTP?enc_http(rf): c.p==SCGI?enc_scgi(rf):enc_fcgi(rf); Exchange y=exchange(g_srv,c.p,b2,false,5000,false,done); Resp r2; if(c.p==HTTP) r2=parse_http(y.reply,0,true); else if(c.p==SCGI) r2=parse_cgi(y.reply); else { FcgiOut f=parse_fcgi(y.reply); if(f.ok) r2=parse_cgi(f.out); }
		if(!r2.ok){ fail(c,"cache-framing","response served from the page cache is not well framed: "+r2.err,e); return; } if(r2.body=="MISS"){ fail(c,"cache-miss","page stored with store_page is not served by fetch_page",e); return; } Case cc=c; if(!check_body(cc,r2,e,"from page cache",false)) return; vf::guard("cached_pages_checked"); }
	{ static uint64_t sc=0; if(vf::sample_tick(sc,503)) vf::sample("{\"case\":"+vf::jstr(case_str(c))+",\"write_answers\":"+vf::jstr(e.str())+",\"body_bytes\":"+std::to_string(total_len(c.prog))+",\"result\":\"client received exactly the bytes written\"}"); }
	vf::outcome(std::string(PROTO_NAME[c.p])+c.mode+(c.async?"a":"s")+(c.gzip?"z":"")+(e.str().find_first_not_of("0,")==std::string::npos?"d":"p")+c.prog.substr(0,12)); }

static std::vector<std::string> programs(bool th){ std::vector<std::string> v; long small[]={0,1,7,8,100}; long edge[]={4095,4096,4097,65527,65535,65536}; std::vector<std::string> ops; for(int i=0;i<5;i++) ops.push_back("w"+std::to_string(small[i])); ops.push_back("f"); ops.push_back("s0"); ops.push_back("s1"); ops.push_back("s4"); ops.push_back("c9");
	// all programs of <= 2 ops over the small alphabet, + selected 3-op programs, + edge sizes alone / after a flush / twice
	for(size_t a=0;a<ops.size();a++){ v.push_back(ops[a]); for(size_t b=0;b<ops.size();b++){ v.push_back(ops[a]+"."+ops[b]); if(th) for(size_t c=0;c<ops.size();c+=2) v.push_back(ops[a]+"."+ops[b]+"."+ops[c]); } }
	v.push_back("w100.f.w100"); v.push_back("s4.w100.f.w7"); v.push_back("w7.s0.w100.c9"); v.push_back("s1.c9.w8.f");
	for(int i=0;i<6;i++){ std::string e="w"+std::to_string(edge[i]); v.push_back(e); v.push_back("w7.f."+e); v.push_back(e+".w1"); if(th){ v.push_back(e+"."+e); v.push_back("s4096."+e+".f.w100"); } }
	v.push_back("w70000"); v.push_back("w200000"); if(th){ v.push_back("w65535.w65535.w7"); v.push_back("w200000.f.w70000"); } return v; }
static void explore_writes(const Case &c,int dev){ g_explore_writes=true; bool complete=true; vf::explore(dev,[&](vf::Envx &e){ run_case(c,e); },&complete,[](){ return vf::deadline_reached()||vf::nviol()>60; }); g_explore_writes=false; if(!complete) vf::C().exhaustive=false; }
static void shard(int sh,int n){ bool th=vf::thorough(); cppcms::json::value cfg; cfg["http"]["script_names"][0]="/out"; cfg["http"]["script_names"][1]="/aout"; cfg["cache"]["backend"]="thread_shared"; cfg["cache"]["limit"]=50; cfg["gzip"]["enable"]=true; g_srv.start(cfg,mount_out);
	std::vector<std::string> P=programs(th); int idx=0; const char *smodes[]={"normal","nogzip","raw"}; const char *amodes[]={"async","asyncraw"};
	for(size_t pi=0;pi<P.size();pi++) for(int proto=0;proto<3;proto++) for(int variant=0;variant<8;variant++){ if((idx++%n)!=sh) continue; Case c; c.p=(Proto)proto; c.prog=P[pi]; c.gzip=false; c.full=true; c.keepalive=false; c.http11=false; c.async=false; size_t tl=total_len(c.prog); bool big=tl>20000;
		switch(variant){ case 0: c.mode="nogzip"; break; case 1: c.mode="normal"; c.gzip=true; break; case 2: c.mode="raw"; break; case 3: c.async=true; c.mode="async"; c.full=true; break; case 4: c.async=true; c.mode="async"; c.full=false; break; case 5: c.async=true; c.mode="asyncraw"; c.full=(pi%2); break; case 6: c.mode="nogzip"; c.cache="store"; break; case 7: c.mode="normal"; c.gzip=true; c.cache="store"; break; }
		if(c.p==HTTP){ c.keepalive=(pi%2==0)&&c.mode!="raw"&&c.mode!="asyncraw"; c.http11=(pi%3==0); }
		vf::announce(case_str(c)); int dev= big? 1 : 2; if(big&&!th&&variant>=6) dev=0; if(th&&!big&&tl<=200) dev=3; explore_writes(c,dev); (void)smodes; (void)amodes; }
	vf::guard("runs",n_runs); vf::guard("write_choice_points",g_write_points); vf::guard("partial_writes",g_partial_writes); vf::guard("eagain_writes",g_eagain_writes); vf::guard("app_calls",g_out_calls);
	if(!g_srv.alive()) vf::violation("service-died","service::run() returned or threw during the exploration: "+g_srv.run_exception,"\"case\":\"service\""); g_srv.stop(); if(g_srv.hung_at_stop) vf::violation("service-hung:at-stop","the service's event loop did not leave run() within 8 s of shutdown() (it is stuck)","\"case\":\"service stop\""); }

int main(int argc,char **argv){ vf::init(argc,argv,"C03","exploration"); int n=16; signal(SIGPIPE,SIG_IGN);
	vf::C().rule="write programs over {w(0,1,7,8,100), char-wise c(9), flush, setbuf(0,1,4)} of length <= 2 (thorough 3) plus sizes {4095,4096,4097,65527,65535,65536,70000,200000} alone / after a flush / followed by one byte, x 8 variants (nogzip, normal+gzip, raw, async full/partial buffering, async raw, copy to page cache plain and gzip) x {http 1.0/1.1 with and without keep-alive follow-up, scgi, fastcgi}; every server writev accepts all | 1 | 2 | half | all-1 bytes or reports would-block (non-blocking modes), explored with <= 2 deviations for bodies <= 20000 bytes (thorough: 3 for bodies <= 200 bytes) and 1 beyond. Body byte i is a fixed function of i. distinct = (protocol, mode, program prefix, default/partial writes)";
	vf::assume("independent de-framer (HTTP status line + headers + identity/Content-Length/chunked, FastCGI record reassembly, zlib inflate) in engine/wire.h and harness/C03"); vf::assume("chunk sizes, record sizes, the choice between Content-Length and chunked, header order and the gzip byte stream itself are not demanded");
	if(!vf::C().replay_file.empty()) printf("replay: run the quick tier; the case text names protocol, mode, program and the write-answer vector\n");
	vf::parallel(n,n,[&](int sh){ shard(sh,n); },vf::thorough()?1700:280);
	vf::require_guard("partial_writes"); vf::require_guard("eagain_writes"); vf::require_guard("gzip_responses"); vf::require_guard("chunked_responses"); vf::require_guard("content_length_responses"); vf::require_guard("keepalive_followups"); vf::require_guard("cached_pages_checked"); vf::require_guard("fcgi_full_size_records");
	return vf::finish(); }
