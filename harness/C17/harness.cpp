// C17 - every scheduled handler runs exactly once: posts, timers, I/O waits, pool jobs.
// Stateless model checking of the real booster::aio::io_service (epoll, poll and select reactors) and cppcms::thread_pool
// under the cooperative scheduler (engine/coop_sched.h): scheduling points at every pthread mutex/condition operation and
// at poll/epoll_wait/select (enabled iff a zero-timeout probe reports an event or the VIRTUAL clock reached the deadline;
// advancing the clock to the earliest pending deadline is itself a scheduled alternative); threads the pool creates are
// adopted. Every schedule with <= 2 (thorough 3) preemptions of 5 scenarios. Oracle: per-handler exactly-once counters,
// thread identity, virtual deadlines, cancellation codes, no deadlock, no "lost wake-up" (the loop sleeping until its
// one-hour poll timeout while work is pending). Data races: separate free-running ThreadSanitizer pass.
#include "vf.h"
#include <booster/aio/io_service.h>
#include <booster/aio/reactor.h>
#include <booster/aio/deadline_timer.h>
#include <booster/aio/stream_socket.h>
#include <booster/aio/aio_category.h>
#include <booster/posix_time.h>
#include <cppcms/thread_pool.h>
#include <sys/socket.h>
#include <poll.h>
#include <netinet/in.h>
#include <fcntl.h>
#include <sys/resource.h>
#include <atomic>
#include <memory>
#ifndef C17_TSAN_PASS
#define SCHED_VIRTUAL_CLOCK
#include "coop_sched.h"
#else
#include <thread>
#include <mutex>
#include <condition_variable>
namespace sched { static void yield_point(){} static int self_id(){ return -1; } }
#endif
namespace io=booster::aio; using booster::system::error_code;

// per-execution bookkeeping shared by the scenario threads
#ifndef C17_TSAN_PASS
// under the scheduler only one thread runs at a time and code between scheduling points is atomic: plain fields suffice,
// and the controller blocks through the scheduler (no extra scheduling points from the harness' own bookkeeping)
struct Book { std::map<std::string,int> calls; std::map<std::string,std::string> info; int done; std::vector<std::string> errors; int loop_thread; std::vector<int> close_at_end; Book():done(0),loop_thread(-1){} ~Book(){ for(size_t i=0;i<close_at_end.size();i++) ::close(close_at_end[i]); }
	void ran(const std::string &id,const std::string &detail=""){ calls[id]++; if(!detail.empty()) info[id]=detail; done++; if(loop_thread>=0&&sched::self_id()>=0&&sched::self_id()!=loop_thread) errors.push_back("handler "+id+" ran on thread "+std::to_string(sched::self_id())+" instead of the loop thread"); }
	void note(const std::string &id){ calls[id]++; } void wait_done(int n){ Book *self=this; sched::block_until([self,n](){ return self->done>=n; }); }
	void error(const std::string &e){ errors.push_back(e); } void loop_died(const std::string &e){ errors.push_back(e); done+=1000; } };
#else
struct Book { std::mutex mx; std::condition_variable cv; std::map<std::string,int> calls; std::map<std::string,std::string> info; int done; std::vector<std::string> errors; int loop_thread; std::vector<int> close_at_end; Book():done(0),loop_thread(-1){} ~Book(){ for(size_t i=0;i<close_at_end.size();i++) ::close(close_at_end[i]); }
	void ran(const std::string &id,const std::string &detail=""){ std::unique_lock<std::mutex> l(mx); calls[id]++; if(!detail.empty()) info[id]=detail; done++; cv.notify_all(); }
	void note(const std::string &id){ std::unique_lock<std::mutex> l(mx); calls[id]++; } void wait_done(int n){ std::unique_lock<std::mutex> l(mx); while(done<n) cv.wait(l); }
	void error(const std::string &e){ std::unique_lock<std::mutex> l(mx); errors.push_back(e); } void loop_died(const std::string &e){ std::unique_lock<std::mutex> l(mx); errors.push_back(e); done+=1000; cv.notify_all(); } };
#endif
typedef std::vector<std::function<void()> > Bodies;
struct Scenario { std::string name; std::function<Bodies(std::shared_ptr<Book>&,int reactor)> build; std::function<void(Book&,std::vector<std::string>&)> check; };
static long long vnow(){ return booster::ptime::milliseconds(booster::ptime::now()); }

static std::vector<Scenario> scenarios(){ std::vector<Scenario> S;
	// S1: two producers post plain / event / io handlers against a running loop; the controller stops it once all ran
	{ Scenario s; s.name="S1 posts from two producers"; s.build=[](std::shared_ptr<Book> &bk,int reactor){ std::shared_ptr<Book> b(new Book()); bk=b; std::shared_ptr<io::io_service> srv(new io::io_service(reactor)); Bodies t;
			t.push_back([b,srv](){ b->loop_thread=sched::self_id(); try{ srv->run(); }catch(std::exception const &e){ b->loop_died(std::string("io_service::run() threw: ")+e.what()); } });
			t.push_back([b,srv](){ srv->post([b](){ b->ran("p1.plain"); }); srv->post([b](error_code const &e){ b->ran("p1.event",e?"err":"ok"); },error_code()); });
			t.push_back([b,srv](){ srv->post([b](error_code const &e,size_t n){ b->ran("p2.io",std::to_string(n)); },error_code(),7); srv->post([b,srv](){ b->ran("p2.plain"); srv->post([b](){ b->ran("p2.nested"); }); }); });
			t.push_back([b,srv](){ b->wait_done(5); srv->stop(); }); return t; };
		s.check=[](Book &b,std::vector<std::string> &err){ const char *ids[]={"p1.plain","p1.event","p2.io","p2.plain","p2.nested"}; for(int i=0;i<5;i++) if(b.calls[ids[i]]!=1) err.push_back(std::string("handler ")+ids[i]+" invoked "+std::to_string(b.calls[ids[i]])+" times"); if(b.info["p2.io"]!="7") err.push_back("io handler got another byte count"); if(b.info["p1.event"]!="ok") err.push_back("event handler got another error code"); }; S.push_back(s); }
	// S2: timers armed and cancelled from another thread: equal, past and future deadlines; cancel races expiry
	{ Scenario s; s.name="S2 timers: arm / cancel racing expiry"; s.build=[](std::shared_ptr<Book> &bk,int reactor){ std::shared_ptr<Book> b(new Book()); bk=b; std::shared_ptr<io::io_service> srv(new io::io_service(reactor)); std::shared_ptr<std::atomic<int> > id_a(new std::atomic<int>(-1)); Bodies t;
			auto h=[b](const std::string &id,long long deadline){ return [b,id,deadline](error_code const &e){ std::string d= e? (e==error_code(io::aio_error::canceled,io::aio_error_cat)?"canceled":"error"):"ok"; if(!e&&vnow()<deadline) d="early"; b->ran(id,d); }; };
			t.push_back([b,srv](){ b->loop_thread=sched::self_id(); try{ srv->run(); }catch(std::exception const &e){ b->loop_died(std::string("io_service::run() threw: ")+e.what()); } });
			t.push_back([b,srv,h,id_a](){ long long n=vnow(); *id_a=srv->set_timer_event(booster::ptime::now()+booster::ptime::milliseconds(5),h("a",n+5)); srv->set_timer_event(booster::ptime::now()+booster::ptime::milliseconds(5),h("b",n+5)); srv->set_timer_event(booster::ptime::now()-booster::ptime::milliseconds(3),h("past",n-3)); srv->set_timer_event(booster::ptime::now()+booster::ptime::milliseconds(10),h("c",n+10)); });
			t.push_back([b,srv,id_a](){ sched::yield_point(); int id=*id_a; if(id>=0){ srv->cancel_timer_event(id); sched::yield_point(); srv->cancel_timer_event(id); /* cancelling twice / cancelling a fired timer must be harmless */ } else b->note("noop"); });
			t.push_back([b,srv](){ b->wait_done(4); srv->stop(); }); return t; };
		s.check=[](Book &b,std::vector<std::string> &err){ const char *ids[]={"a","b","past","c"}; for(int i=0;i<4;i++){ if(b.calls[ids[i]]!=1) err.push_back(std::string("timer handler ")+ids[i]+" invoked "+std::to_string(b.calls[ids[i]])+" times"); if(b.info[ids[i]]=="early") err.push_back(std::string("timer ")+ids[i]+" fired with success before its deadline"); if(b.info[ids[i]]=="error") err.push_back(std::string("timer ")+ids[i]+" got an unexpected error code"); } if(b.info["b"]=="canceled"||b.info["c"]=="canceled"||b.info["past"]=="canceled") err.push_back("a timer that was never cancelled reported cancellation"); }; S.push_back(s); }
	// S3: readiness of two descriptors in both orders, a writer thread, a canceller (cancel / close)
	{ Scenario s; s.name="S3 I/O waits: writer vs cancel/close"; s.build=[](std::shared_ptr<Book> &bk,int reactor){ std::shared_ptr<Book> b(new Book()); bk=b; std::shared_ptr<io::io_service> srv(new io::io_service(reactor)); int sp1[2],sp2[2]; if(socketpair(AF_UNIX,SOCK_STREAM,0,sp1)||socketpair(AF_UNIX,SOCK_STREAM,0,sp2)){ b->error("socketpair failed"); } std::shared_ptr<io::stream_socket> s1(new io::stream_socket(*srv)),s2(new io::stream_socket(*srv)); s1->assign(sp1[0]); s2->assign(sp2[0]); int w1=sp1[1],w2=sp2[1]; b->close_at_end.push_back(w1); b->close_at_end.push_back(w2); Bodies t;
			auto h=[b](const std::string &id){ return [b,id](error_code const &e){ b->ran(id,e?(e==error_code(io::aio_error::canceled,io::aio_error_cat)?"canceled":"error:"+e.message()):"ok"); }; };
			t.push_back([b,srv](){ b->loop_thread=sched::self_id(); try{ srv->run(); }catch(std::exception const &e){ b->loop_died(std::string("io_service::run() threw: ")+e.what()); } });
			t.push_back([b,srv,s1,s2,h](){ s1->on_readable(h("r1")); s2->on_readable(h("r2")); s2->on_writeable(h("w2")); });
			t.push_back([b,w1,w2](){ sched::yield_point(); if(write(w2,"x",1)!=1) b->note("write-failed"); sched::yield_point(); if(write(w1,"y",1)!=1) b->note("write-failed"); });
			t.push_back([b,srv,s1](){ sched::yield_point(); s1->cancel(); });
			t.push_back([b,srv,s1,s2,w1,w2](){ b->wait_done(3); srv->stop(); }); /* the assigned ends are closed when the stream_sockets die after the run */ return t; };
		s.check=[](Book &b,std::vector<std::string> &err){ const char *ids[]={"r1","r2","w2"}; for(int i=0;i<3;i++){ if(b.calls[ids[i]]!=1) err.push_back(std::string("I/O handler ")+ids[i]+" invoked "+std::to_string(b.calls[ids[i]])+" times"); if(b.info[ids[i]].compare(0,5,"error")==0) err.push_back(std::string("I/O handler ")+ids[i]+" got "+b.info[ids[i]]); } if(b.info["r2"]=="canceled"||b.info["w2"]=="canceled") err.push_back("a wait that was never cancelled reported cancellation"); }; S.push_back(s); }
	// S4: stop() racing post(): nothing runs twice, run() returns
	{ Scenario s; s.name="S4 stop racing post"; s.build=[](std::shared_ptr<Book> &bk,int reactor){ std::shared_ptr<Book> b(new Book()); bk=b; std::shared_ptr<io::io_service> srv(new io::io_service(reactor)); Bodies t;
			t.push_back([b,srv](){ b->loop_thread=sched::self_id(); try{ srv->run(); }catch(std::exception const &e){ b->error(std::string("io_service::run() threw: ")+e.what()); } b->note("run-returned"); });
			t.push_back([b,srv](){ srv->post([b](){ b->ran("q1"); }); sched::yield_point(); srv->post([b](){ b->ran("q2"); }); });
			t.push_back([b,srv](){ sched::yield_point(); srv->stop(); }); return t; };
		s.check=[](Book &b,std::vector<std::string> &err){ if(b.calls["q1"]>1||b.calls["q2"]>1) err.push_back("a posted handler ran twice around stop()"); if(b.calls["run-returned"]!=1) err.push_back("run() did not return after stop()"); }; S.push_back(s); }
	return S; }
// S5: the worker pool (threads created by the pool are adopted by the scheduler)
static Scenario pool_scenario(){ Scenario s; s.name="S5 thread_pool: post / cancel / throwing job / stop"; s.build=[](std::shared_ptr<Book> &bk,int){ std::shared_ptr<Book> b(new Book()); bk=b; std::shared_ptr<std::atomic<int> > cancelled(new std::atomic<int>(0)); std::shared_ptr<std::unique_ptr<cppcms::thread_pool> > pool(new std::unique_ptr<cppcms::thread_pool>()); Bodies t;
		t.push_back([b,pool,cancelled](){ pool->reset(new cppcms::thread_pool(2)); cppcms::thread_pool &p=**pool; p.post([b](){ b->ran("j1"); }); int id2=p.post([b](){ b->ran("j2"); throw std::runtime_error("job failure"); }); p.post([b](){ b->ran("j3"); }); int id4=p.post([b](){ b->ran("j4"); }); bool c=p.cancel(id4); if(c){ (*cancelled)++; b->ran("j4-cancelled"); } (void)id2; p.post([b](){ b->ran("j5"); }); b->wait_done(5); p.stop(); b->ran("stopped"); });
		return t; };
	s.check=[](Book &b,std::vector<std::string> &err){ const char *must[]={"j1","j2","j3","j5"}; for(int i=0;i<4;i++) if(b.calls[must[i]]!=1) err.push_back(std::string("pool job ")+must[i]+" ran "+std::to_string(b.calls[must[i]])+" times"); int j4=b.calls["j4"],c4=b.calls["j4-cancelled"]; if(j4+c4!=1) err.push_back("job j4: cancel() returned "+std::string(c4?"true":"false")+" and the job ran "+std::to_string(j4)+" times"); if(b.calls["stopped"]!=1) err.push_back("stop() did not return"); }; return s; }

#ifndef C17_TSAN_PASS
// S6 (sequential, no scheduler): MANY simultaneously pending timers on one io_service. The id table of set_timer_event
// grows while timers are pending; every id handed out must identify exactly one pending timer, so that cancelling by id
// reaches exactly the timer it was returned for. For every (N pending, rand-stream shift, cancel order) of a menu: arm,
// check the ids are pairwise distinct, cancel in the given order (optionally in two rounds with re-arming in between,
// optionally letting one half expire), run the loop, and require every handler to have run exactly once with the right code.
struct TRec { int id; int ok,canceled,other; TRec():id(-1),ok(0),canceled(0),other(0){} };
static void timers_case(int reactor,const char *rname,int N,int shift,int order){ std::string cs="S6 many timers reactor="+std::string(rname)+" N="+std::to_string(N)+" shift="+std::to_string(shift)+" order="+std::to_string(order); vf::announce(cs); vf::eval();
	io::io_service srv(reactor); std::vector<TRec> rec(N+shift+N); std::vector<TRec> *R=&rec; std::string fail;
	auto h=[R](int i){ return [R,i](error_code const &e){ if(!e) (*R)[i].ok++; else if(e==error_code(io::aio_error::canceled,io::aio_error_cat)) (*R)[i].canceled++; else (*R)[i].other++; }; };
	auto loop=[&](){ srv.post([&srv](){ srv.stop(); }); srv.run(); srv.reset(); };
	booster::ptime far=booster::ptime::now()+booster::ptime::hours(1), past=booster::ptime::now()-booster::ptime::milliseconds(5);
	std::map<int,int> pending; // id -> record
	auto arm=[&](int i,bool expired){ int id=srv.set_timer_event(expired?past:far,h(i)); rec[i].id=id; if(pending.count(id)&&fail.empty()) fail="timers #"+std::to_string(pending[id])+" and #"+std::to_string(i)+" are both pending and were both given id "+std::to_string(id); pending[id]=i; };
	auto cancel=[&](int i){ srv.cancel_timer_event(rec[i].id); if(pending.count(rec[i].id)&&pending[rec[i].id]==i) pending.erase(rec[i].id); };
	for(int j=0;j<shift;j++){ arm(N+j,false); cancel(N+j); } // moves the slot generator along; these must be cancelled exactly once too
	std::vector<int> want_ok(rec.size(),0),want_c(rec.size(),0); for(int j=0;j<shift;j++) want_c[N+j]=1;
	if(order<=2){ for(int i=0;i<N;i++) arm(i,false);
		if(order==0) for(int i=0;i<N;i++) cancel(i); else if(order==1) for(int i=N-1;i>=0;i--) cancel(i); else { for(int i=0;i<N;i+=2) cancel(i); for(int i=1;i<N;i+=2) cancel(i); }
		for(int i=0;i<N;i++) want_c[i]=1; loop(); }
	else if(order==3){ // two rounds: cancel the even ones, dispatch, arm as many again while the odd ones are pending, cancel everything
		for(int i=0;i<N;i++) arm(i,false); for(int i=0;i<N;i+=2){ cancel(i); want_c[i]=1; } loop();
		for(int i=0;i<N&&fail.empty();i++) if(rec[i].canceled!=want_c[i]||rec[i].ok) fail="after cancelling the even timers: timer #"+std::to_string(i)+" (id "+std::to_string(rec[i].id)+") ran canceled="+std::to_string(rec[i].canceled)+" ok="+std::to_string(rec[i].ok)+", expected canceled="+std::to_string(want_c[i]);
		int base=N+shift; for(int i=0;i<N;i++) arm(base+i,false); for(int i=1;i<N;i+=2){ cancel(i); want_c[i]=1; } for(int i=0;i<N;i++){ cancel(base+i); want_c[base+i]=1; } loop(); }
	else { // order 4: the odd ones are already due when armed and expire, the even ones are cancelled first
		for(int i=0;i<N;i++) arm(i,(i&1)!=0); for(int i=0;i<N;i+=2){ cancel(i); want_c[i]=1; } for(int i=1;i<N;i+=2){ want_ok[i]=1; pending.erase(rec[i].id); } /* the loop is stopped by a handler posted from a timer that is due after all the others, so every due timer has been dispatched before */ srv.set_timer_event(booster::ptime::now(),[&srv](error_code const &){ srv.post([&srv](){ srv.stop(); }); }); srv.run(); srv.reset(); loop(); }
	for(size_t i=0;i<rec.size()&&fail.empty();i++){ if(rec[i].id<0&&!want_ok[i]&&!want_c[i]) continue; if(rec[i].ok!=want_ok[i]||rec[i].canceled!=want_c[i]||rec[i].other) fail="timer #"+std::to_string(i)+" (id "+std::to_string(rec[i].id)+"): handler ran ok="+std::to_string(rec[i].ok)+" canceled="+std::to_string(rec[i].canceled)+" other="+std::to_string(rec[i].other)+" time(s), expected ok="+std::to_string(want_ok[i])+" canceled="+std::to_string(want_c[i]); }
	if(!fail.empty()) vf::violation(std::string("many-timers:")+(fail.find("both given id")!=std::string::npos?"duplicate-id":"not-exactly-once"),fail+" ["+cs+"]","\"case\":"+vf::jstr(cs));
	vf::guard("many_timer_cases"); if(N>1000) vf::guard("many_timer_cases_with_table_growth"); vf::C().traces++; vf::C().transitions+=rec.size()*2; vf::outcome("S6|"+std::to_string(N)+"|"+std::to_string(order)+(fail.empty()?"|ok":"|fail"));
	{ static uint64_t sc=0; if(vf::sample_tick(sc,37)) vf::sample("{\"case\":"+vf::jstr(cs)+",\"timers\":"+std::to_string(rec.size())+",\"result\":"+vf::jstr(fail.empty()?"every handler exactly once with the expected code":fail)+"}",60); }
}
static void timers_pass(int part,int parts){ int reactors[]={io::reactor::use_epoll,io::reactor::use_poll,io::reactor::use_select}; const char *rn[]={"epoll","poll","select"}; std::vector<int> Ns; int q[]={1,2,10,500,999,1000,1001,1500,2500}; Ns.assign(q,q+9); if(vf::thorough()){ Ns.push_back(5000); Ns.push_back(12000); Ns.push_back(20000); }
	int k=0; for(size_t n=0;n<Ns.size();n++) for(int shift=0;shift<(vf::thorough()?16:6);shift++) for(int order=0;order<5;order++) for(int r=0;r<3;r++){ if(r&&(Ns[n]>2500||shift>1)) continue; /* the timer table is reactor independent: the other reactors get the smaller cases */ if(k++%parts!=part) continue; if(vf::deadline_reached()){ vf::C().exhaustive=false; return; } timers_case(reactors[r],rn[r],Ns[n],shift,order); } }

// S7 (sequential): I/O waits whose REGISTRATION fails inside the reactor (a regular file under epoll: EPERM; a descriptor closed before the loop registers it: EBADF;
// a descriptor >= FD_SETSIZE under select), followed by cancel_io_events on the same descriptor and by a second wait. Each handler must run exactly once (with an error
// or a cancellation code, never twice), whatever the reactor answers.
static void failing_registration_case(int reactor,const char *rname,int kind,int follow){ const char *kn[]={"regular file","descriptor closed before registration","descriptor >= FD_SETSIZE","valid socket (control)"}; const char *fn[]={"cancel_io_events","cancel twice","wait for writability too, then cancel","nothing"}; std::string cs="S7 failing registration reactor="+std::string(rname)+" fd="+kn[kind]+" then="+fn[follow]; vf::announce(cs); vf::eval();
	io::io_service srv(reactor); int fd=-1,aux=-1; int sp[2]={-1,-1};
	if(kind==0){ char tmpl[]="/tmp/vfc17XXXXXX"; fd=mkstemp(tmpl); unlink(tmpl); } else if(kind==1){ if(socketpair(AF_UNIX,SOCK_STREAM,0,sp)==0){ fd=sp[0]; aux=sp[1]; ::close(fd); } } else if(kind==2){ struct rlimit rl; getrlimit(RLIMIT_NOFILE,&rl); if(rl.rlim_cur<1200){ rl.rlim_cur=std::min<rlim_t>(rl.rlim_max,4096); setrlimit(RLIMIT_NOFILE,&rl); } if(socketpair(AF_UNIX,SOCK_STREAM,0,sp)==0){ fd=dup2(sp[0],1100); ::close(sp[0]); aux=sp[1]; } } else { if(socketpair(AF_UNIX,SOCK_STREAM,0,sp)==0){ fd=sp[0]; aux=sp[1]; } }
	if(fd<0){ if(aux>=0) ::close(aux); vf::guard("failing_registration_cases_skipped"); return; }
	int n1=0,n2=0; std::string c1,c2; auto code=[](error_code const &e){ return !e?std::string("ok"): e==error_code(io::aio_error::canceled,io::aio_error_cat)?std::string("canceled"):std::string("error"); };
	// everything happens inside ONE run(): a script of steps, each followed by three empty loop iterations so that what a step caused is dispatched (reset() would drop it)
	std::vector<std::function<void()> > script; script.push_back([&](){ srv.set_io_event(fd,io::io_service::in,[&](error_code const &e){ n1++; c1+=code(e)+","; }); });
	if(follow==0||follow==1){ script.push_back([&](){ srv.cancel_io_events(fd); if(follow==1) srv.cancel_io_events(fd); }); }
	else if(follow==2){ /* a second wait on the same descriptor for the OTHER event (set_io_event for the same event would, by its 'set' contract, replace the pending handler: not used) */ script.push_back([&](){ srv.set_io_event(fd,io::io_service::out,[&](error_code const &e){ n2++; c2+=code(e)+","; }); }); script.push_back([&](){ srv.cancel_io_events(fd); }); }
	script.push_back([&](){ srv.cancel_io_events(fd); }); // final sweep: whatever is still registered is cancelled
	size_t pc=0; int hop=0; std::function<void()> tick; tick=[&](){ if(hop>0){ hop--; srv.post(tick); return; } if(pc<script.size()){ script[pc++](); hop=3; srv.post(tick); } else srv.stop(); }; srv.post(tick); srv.run();
	std::string fail; if(n1!=1) fail="the handler of the first wait ran "+std::to_string(n1)+" times ("+c1+")"; else if(follow==2&&n2!=1) fail="the handler of the second wait ran "+std::to_string(n2)+" times ("+c2+")";
	if(!fail.empty()) vf::violation(std::string("io-wait:")+(n1>1||n2>1?"handler-twice":"handler-lost")+":"+rname,fail+" ["+cs+"]","\"case\":"+vf::jstr(cs));
	if(c1.find("error")!=std::string::npos) vf::guard("io_wait_registrations_refused"); vf::guard("failing_registration_cases"); vf::C().traces++; vf::outcome("S7|"+std::string(rname)+"|"+std::to_string(kind)+"|"+std::to_string(follow)+"|"+c1+"|"+c2);
	{ static uint64_t sc=0; if(vf::sample_tick(sc,7)) vf::sample("{\"case\":"+vf::jstr(cs)+",\"first_handler\":"+vf::jstr(c1)+",\"second_handler\":"+vf::jstr(c2)+"}",70); }
	if(kind!=1&&fd>=0) ::close(fd); if(aux>=0) ::close(aux); }
// S8 (sequential): a wait armed and cancelled while the loop is NOT running - before its first run(), or after stop() + reset() - on a descriptor that is or is not
// readable. When the loop then runs, the handler must be invoked exactly once, with the cancellation code (the cancel came first), never with success.
static void cancel_before_run_case(int reactor,const char *rname,int phase,int readable,int how){ const char *ph[]={"before the first run()","after stop() and reset()"}; const char *hw[]={"cancel_io_events","stream_socket::cancel","stream_socket::close"}; std::string cs="S8 cancel while the loop is not running reactor="+std::string(rname)+" "+ph[phase]+(readable?" readable descriptor":" idle descriptor")+" via "+hw[how]; vf::announce(cs); vf::eval();
	io::io_service srv(reactor); int sp[2]; if(socketpair(AF_UNIX,SOCK_STREAM,0,sp)){ vf::guard("failing_registration_cases_skipped"); return; } if(readable){ if(write(sp[1],"x",1)!=1){} }
	if(phase==1){ srv.post([&srv](){ srv.stop(); }); srv.run(); srv.reset(); }
	int n=0; std::string codes; auto code=[](error_code const &e){ return !e?std::string("ok"): e==error_code(io::aio_error::canceled,io::aio_error_cat)?std::string("canceled"):std::string("error"); };
	std::unique_ptr<io::stream_socket> ss; if(how==0){ srv.set_io_event(sp[0],io::io_service::in,[&](error_code const &e){ n++; codes+=code(e)+","; }); srv.cancel_io_events(sp[0]); }
	else { ss.reset(new io::stream_socket(srv)); ss->assign(sp[0]); ss->on_readable([&](error_code const &e){ n++; codes+=code(e)+","; }); if(how==1) ss->cancel(); else { error_code e; ss->close(e); sp[0]=-1; } }
	int hop=6; std::function<void()> tick; tick=[&](){ if(--hop>0) srv.post(tick); else srv.stop(); }; srv.post(tick); srv.run();
	std::string fail; if(n!=1) fail="the handler ran "+std::to_string(n)+" times ("+codes+")"; else if(codes!="canceled,"&&codes!="error,") fail="the handler of a wait cancelled before the loop ran was invoked with '"+codes+"' instead of a cancellation or error code";
	if(!fail.empty()) vf::violation(std::string("io-wait:cancelled-before-run:")+rname,fail+" ["+cs+"]","\"case\":"+vf::jstr(cs)); vf::guard("cancel_before_run_cases"); vf::C().traces++; vf::outcome("S8|"+std::string(rname)+"|"+std::to_string(phase)+std::to_string(readable)+std::to_string(how)+"|"+codes);
	{ static uint64_t sc=0; if(vf::sample_tick(sc,5)) vf::sample("{\"case\":"+vf::jstr(cs)+",\"handler\":"+vf::jstr(codes)+"}",80); }
	if(ss.get()){ if(how!=2){ error_code e; ss->close(e); sp[0]=-1; } ss.reset(); } if(sp[0]>=0) ::close(sp[0]); ::close(sp[1]); }
// S9 (sequential): descriptor NUMBER reuse. A wait is pending on descriptor N; the descriptor goes away in one of three orders (cancel then close; raw close then
// cancel_io_events - the reactor's removal then fails with EBADF; raw close, a NEW socket takes number N, then cancel_io_events - removal fails with ENOENT); then a
// new, ready socket with the same number N is waited on in the same io_service. The old handler must run exactly once (cancellation/error, or success if it was a
// writability wait), and the new handler must run exactly once with success, because its descriptor is ready - whatever the reactor cached about number N.
static void fd_reuse_case(int reactor,const char *rname,int ev1,int how,int ev2,int rounds){ const char *hw[]={"cancel then close","close then cancel","close, number reused, then cancel"}; std::string cs="S9 descriptor number reuse reactor="+std::string(rname)+" first wait="+(ev1?"writable":"readable")+" end="+hw[how]+" second wait="+(ev2?"writable":"readable")+" rounds="+std::to_string(rounds); vf::announce(cs); vf::eval();
	io::io_service srv(reactor); int sp[2]; if(socketpair(AF_UNIX,SOCK_STREAM,0,sp)){ vf::guard("failing_registration_cases_skipped"); return; } int N=sp[0]; std::vector<int> peers; peers.push_back(sp[1]);
	auto code=[](error_code const &e){ return !e?std::string("ok"): e==error_code(io::aio_error::canceled,io::aio_error_cat)?std::string("canceled"):std::string("error"); };
	std::vector<int> cnt(rounds+1,0); std::vector<std::string> codes(rounds+1); std::vector<std::function<void()> > script;
	auto fresh_onto_N=[&](){ int q[2]; if(socketpair(AF_UNIX,SOCK_STREAM,0,q)) return; if(q[0]!=N){ dup2(q[0],N); ::close(q[0]); } peers.push_back(q[1]); if(write(q[1],"x",1)!=1){} };
	for(int r=0;r<rounds;r++){ int ev= r==0?ev1:ev2; script.push_back([&,r,ev](){ srv.set_io_event(N,ev?io::io_service::out:io::io_service::in,[&,r](error_code const &e){ cnt[r]++; codes[r]+=code(e)+","; }); });
		if(how==0){ script.push_back([&](){ srv.cancel_io_events(N); }); script.push_back([&](){ ::close(N); fresh_onto_N(); }); }
		else if(how==1){ script.push_back([&](){ ::close(N); srv.cancel_io_events(N); }); script.push_back([&](){ fresh_onto_N(); }); }
		else { script.push_back([&](){ ::close(N); fresh_onto_N(); srv.cancel_io_events(N); }); } }
	script.push_back([&](){ srv.set_io_event(N,ev2?io::io_service::out:io::io_service::in,[&](error_code const &e){ cnt[rounds]++; codes[rounds]+=code(e)+","; }); });
	script.push_back([&](){ srv.cancel_io_events(N); }); // final sweep
	size_t pc=0; int hop=0; std::function<void()> tick; tick=[&](){ if(hop>0){ hop--; srv.post(tick); return; } if(pc<script.size()){ script[pc++](); hop=3; srv.post(tick); } else srv.stop(); }; srv.post(tick); srv.run();
	std::string fail; for(int r=0;r<=rounds&&fail.empty();r++){ if(cnt[r]!=1) fail="the handler of wait #"+std::to_string(r+1)+" on descriptor number "+std::to_string(N)+" ran "+std::to_string(cnt[r])+" times ("+codes[r]+")"; }
	if(fail.empty()&&codes[rounds]!="ok,") fail="the wait on the NEW, ready socket that got the number of the closed one completed with '"+codes[rounds]+"' instead of success";
	if(fail.empty()&&rounds>=1&&!(ev1==0&&codes[0]=="ok,")){} if(fail.empty()&&ev1==0&&codes[0]=="ok,") fail="a readability wait on an idle socket completed with success";
	if(!fail.empty()) vf::violation(std::string("io-wait:descriptor-number-reuse:")+rname,fail+" ["+cs+"]","\"case\":"+vf::jstr(cs)); vf::guard("descriptor_number_reuse_cases"); vf::C().traces++; { std::string all; for(int r=0;r<=rounds;r++) all+=codes[r]+"/"; vf::outcome("S9|"+std::string(rname)+"|"+std::to_string(ev1)+std::to_string(how)+std::to_string(ev2)+std::to_string(rounds)+"|"+all); static uint64_t sc=0; if(vf::sample_tick(sc,5)) vf::sample("{\"case\":"+vf::jstr(cs)+",\"handlers\":"+vf::jstr(all)+"}",90); }
	::close(N); for(size_t i=0;i<peers.size();i++) ::close(peers[i]); }
// S10 (sequential): the peer ends the conversation while waits are armed for a direction that is not ready. A unix stream socket pair; our end has its send
// buffer {empty, full} and {no, one} inbound byte pending; armed: a readability wait, a writability wait, or both; then the peer {closes, shutdown(SHUT_RDWR),
// shutdown(SHUT_WR), shutdown(SHUT_RD), sends one byte, does nothing}. After a few loop iterations the kernel is asked (poll(2) on our end) what it reports: when it
// reports hang-up/error the epoll and poll reactors deliver an error event, the loop deregisters the descriptor, and EVERY armed handler must have run by then
// (for any reactor: the handler of a direction that poll reports ready must have run). Then cancel_io_events sweeps: every handler exactly once overall.
static bool tcp_pair(int sp[2]){ int l=socket(AF_INET,SOCK_STREAM,0); if(l<0) return false; struct sockaddr_in a; memset(&a,0,sizeof(a)); a.sin_family=AF_INET; a.sin_addr.s_addr=htonl(INADDR_LOOPBACK); a.sin_port=0; socklen_t al=sizeof(a);
	if(bind(l,(struct sockaddr*)&a,sizeof(a))||listen(l,1)||getsockname(l,(struct sockaddr*)&a,&al)){ ::close(l); return false; } int c=socket(AF_INET,SOCK_STREAM,0); if(c<0||connect(c,(struct sockaddr*)&a,sizeof(a))){ if(c>=0) ::close(c); ::close(l); return false; } int s=accept(l,0,0); ::close(l); if(s<0){ ::close(c); return false; } sp[0]=c; sp[1]=s; return true; }
static void peer_ending_case(int reactor,const char *rname,int armed,int full,int inbound,int action,int tcp){ const char *an[]={"close","shutdown(SHUT_RDWR)","shutdown(SHUT_WR)","shutdown(SHUT_RD)","send one byte","nothing"};
	std::string cs="S10 peer ending "+std::string(tcp?"tcp loopback":"unix stream")+" reactor="+std::string(rname)+" armed="+(armed==1?"reader":armed==2?"writer":"reader+writer")+" send buffer="+(full?"full":"empty")+" inbound="+std::to_string(inbound)+" peer: "+an[action]; vf::announce(cs); vf::eval();
	io::io_service srv(reactor); int sp[2]; if(tcp? !tcp_pair(sp) : socketpair(AF_UNIX,SOCK_STREAM,0,sp)!=0){ vf::guard("peer_ending_cases_skipped"); return; } fcntl(sp[0],F_SETFL,fcntl(sp[0],F_GETFL)|O_NONBLOCK); fcntl(sp[1],F_SETFL,fcntl(sp[1],F_GETFL)|O_NONBLOCK);
	if(full){ char blk[4096]; memset(blk,'f',sizeof(blk)); while(write(sp[0],blk,sizeof(blk))>0){} } if(inbound){ if(write(sp[1],"i",1)!=1){} }
	int rc=0,wc=0,rc_before=0,wc_before=0; short rev=0; std::string codes; auto code=[](error_code const &e){ return !e?std::string("ok"): e==error_code(io::aio_error::canceled,io::aio_error_cat)?std::string("canceled"):std::string("error"); };
	std::vector<std::function<void()> > script;
	script.push_back([&](){ if(armed&1) srv.set_io_event(sp[0],io::io_service::in,[&](error_code const &e){ rc++; codes+="r:"+code(e)+","; }); if(armed&2) srv.set_io_event(sp[0],io::io_service::out,[&](error_code const &e){ wc++; codes+="w:"+code(e)+","; }); });
	script.push_back([&](){ switch(action){ case 0: ::close(sp[1]); sp[1]=-1; break; case 1: shutdown(sp[1],SHUT_RDWR); break; case 2: shutdown(sp[1],SHUT_WR); break; case 3: shutdown(sp[1],SHUT_RD); break; case 4: if(write(sp[1],"p",1)!=1){} break; default: break; } });
	script.push_back([&](){}); // a few more loop iterations
	script.push_back([&](){ struct pollfd pf; pf.fd=sp[0]; pf.events=POLLIN|POLLOUT; pf.revents=0; if(::poll(&pf,1,0)>=0) rev=pf.revents; }); /* what the kernel reports now ... */ script.push_back([&](){ rc_before=rc; wc_before=wc; }); /* ... the loop has had four more iterations to deliver */
	script.push_back([&](){ srv.cancel_io_events(sp[0]); });
	size_t pc=0; int hop=0; std::function<void()> tick; tick=[&](){ if(hop>0){ hop--; srv.post(tick); return; } if(pc<script.size()){ script[pc++](); hop=4; srv.post(tick); } else srv.stop(); }; srv.post(tick); srv.run();
	std::string fail; bool hup=(rev&(POLLHUP|POLLERR))!=0 && reactor!=io::reactor::use_select; std::string kr=std::string(rev&POLLIN?"IN ":"")+(rev&POLLOUT?"OUT ":"")+(rev&POLLHUP?"HUP ":"")+(rev&POLLERR?"ERR ":"");
	if((armed&1)&&rc_before==0&&(hup||(rev&POLLIN))) fail="the readability handler had not run although the kernel reports "+kr+"on the descriptor";
	if(fail.empty()&&(armed&2)&&wc_before==0&&(hup||(rev&POLLOUT))) fail="the writability handler had not run although the kernel reports "+kr+"on the descriptor (hang-up/error deregisters the descriptor: every armed handler has to be completed)";
	if(fail.empty()&&(((armed&1)&&rc!=1)||(!(armed&1)&&rc))) fail="the readability handler ran "+std::to_string(rc)+" times ("+codes+")"; if(fail.empty()&&(((armed&2)&&wc!=1)||(!(armed&2)&&wc))) fail="the writability handler ran "+std::to_string(wc)+" times ("+codes+")";
	if(!fail.empty()) vf::violation(std::string("io-wait:peer-ending:")+rname,fail+" ["+cs+"]","\"case\":"+vf::jstr(cs)); vf::guard("peer_ending_cases"); if(hup) vf::guard("peer_ending_cases_with_hangup_reported"); if(hup&&(armed&2)&&full&&!(rev&POLLOUT)) vf::guard("peer_ending_hangup_with_unready_writer"); if(tcp&&(rev&POLLERR)) vf::guard("peer_ending_tcp_reset_cases"); vf::C().traces++; vf::outcome("S10|"+std::string(rname)+(tcp?"|tcp|":"|unix|")+std::to_string(armed)+std::to_string(full)+std::to_string(inbound)+std::to_string(action)+"|"+kr+"|"+codes);
	{ static uint64_t sc=0; if(vf::sample_tick(sc,11)) vf::sample("{\"case\":"+vf::jstr(cs)+",\"kernel\":"+vf::jstr(kr)+",\"handlers\":"+vf::jstr(codes)+"}",90); }
	::close(sp[0]); if(sp[1]>=0) ::close(sp[1]); }
static void peer_ending_pass(){ int reactors[]={io::reactor::use_epoll,io::reactor::use_poll,io::reactor::use_select}; const char *rn[]={"epoll","poll","select"}; for(int r=0;r<3;r++) for(int armed=1;armed<=3;armed++) for(int full=0;full<2;full++) for(int inb=0;inb<2;inb++) for(int act=0;act<6;act++) for(int tcp=0;tcp<2;tcp++) peer_ending_case(reactors[r],rn[r],armed,full,inb,act,tcp); }
static void failing_registration_pass(){ { int reactors[]={io::reactor::use_epoll,io::reactor::use_poll,io::reactor::use_select}; const char *rn[]={"epoll","poll","select"}; for(int r=0;r<3;r++) for(int e1=0;e1<2;e1++) for(int how=0;how<3;how++) for(int e2=0;e2<2;e2++) for(int rounds=1;rounds<=2;rounds++) fd_reuse_case(reactors[r],rn[r],e1,how,e2,rounds); }
 { int reactors[]={io::reactor::use_epoll,io::reactor::use_poll,io::reactor::use_select}; const char *rn[]={"epoll","poll","select"}; for(int r=0;r<3;r++) for(int phase=0;phase<2;phase++) for(int rd=0;rd<2;rd++) for(int how=0;how<3;how++) cancel_before_run_case(reactors[r],rn[r],phase,rd,how); }
 int reactors[]={io::reactor::use_epoll,io::reactor::use_poll,io::reactor::use_select}; const char *rn[]={"epoll","poll","select"}; for(int r=0;r<3;r++) for(int kind=0;kind<4;kind++) for(int follow=0;follow<4;follow++) failing_registration_case(reactors[r],rn[r],kind,follow); }
static uint64_t n_exec=0;
static void run_scenario(const Scenario &s,int reactor,const char *rname,int bound,bool adopt){ std::string cs=s.name+" reactor="+rname; vf::announce(cs); std::shared_ptr<Book> cur; std::set<std::string> outcomes; sched::G.virtual_clock=true; sched::G.adopt_threads=adopt;
	auto factory=[&]()->Bodies{ return s.build(cur,reactor); };
	auto after=[&](const sched::Result &r){ n_exec++; vf::eval(); vf::C().traces++; vf::C().transitions+=r.points.size(); std::vector<std::string> err=cur->errors; s.check(*cur,err); if(r.horizon_jumps) err.push_back("lost wake-up: the loop slept until its poll timeout (virtual clock had to jump "+std::to_string(r.vnow_ms/1000)+" s) while work was pending");
		if(!err.empty()){ std::string kind= err[0].find("lost wake-up")!=std::string::npos?"lost-wakeup": err[0].find("times")!=std::string::npos?"not-exactly-once":"other"; vf::violation(kind+":"+s.name.substr(0,2)+":"+rname,err[0]+" ["+cs+" schedule="+r.choices+"]","\"case\":"+vf::jstr(cs)+",\"schedule\":"+vf::jstr(r.choices)); }
		std::string oc; for(std::map<std::string,int>::iterator i=cur->calls.begin();i!=cur->calls.end();++i) oc+=i->first+"="+std::to_string(i->second)+cur->info[i->first]+","; outcomes.insert(oc); vf::outcome(cs+oc); if(r.time_advances) vf::guard("executions_with_virtual_time_advance"); { static uint64_t sc=0; if(vf::sample_tick(sc,1009)) vf::sample("{\"scenario\":"+vf::jstr(cs)+",\"schedule\":"+vf::jstr(r.choices)+",\"scheduling_points\":"+std::to_string(r.points.size())+",\"virtual_ms\":"+std::to_string(r.vnow_ms)+",\"handlers\":"+vf::jstr(oc)+"}"); } };
	bool complete=true; sched::explore(bound,factory,after,&complete,[](){ return vf::deadline_reached()||vf::nviol()>20; }); if(!complete) vf::C().exhaustive=false; vf::guard(("executions:"+s.name.substr(0,2)+":"+rname+(complete?":complete":":capped")).c_str(),n_exec); vf::C().states+=outcomes.size(); if(outcomes.size()>1) vf::guard("scenarios_with_several_outcomes"); sched::G.virtual_clock=false; sched::G.adopt_threads=false; }
#else
static void tsan_pass(){ std::vector<Scenario> S=scenarios(); S.push_back(pool_scenario()); int reactors[]={io::reactor::use_epoll,io::reactor::use_poll,io::reactor::use_select}; uint64_t runs=0; for(int rep=0;rep<(vf::thorough()?40:8);rep++) for(size_t si=0;si<S.size();si++) for(int r=0;r<3;r++){ if(si==S.size()-1&&r) continue; std::shared_ptr<Book> b; Bodies t=S[si].build(b,reactors[r]); std::vector<std::thread> th; for(size_t i=0;i<t.size();i++) th.push_back(std::thread(t[i])); for(size_t i=0;i<th.size();i++) th[i].join(); runs++; vf::eval(); }
	vf::guard("tsan_free_runs",runs); vf::outcome("tsan-a"); vf::outcome("tsan-b"); vf::sample("{\"pass\":\"free-running ThreadSanitizer\",\"scenarios\":5,\"runs\":"+std::to_string(runs)+"}"); }
#endif

int main(int argc,char **argv){ vf::init(argc,argv,"C17","model_checking");
#ifdef C17_TSAN_PASS
	tsan_pass(); return vf::finish();
#else
	bool th=vf::thorough(); int bound=th?3:2; std::vector<Scenario> S=scenarios(); int reactors[]={io::reactor::use_epoll,io::reactor::use_poll,io::reactor::use_select}; const char *rn[]={"epoll","poll","select"};
	vf::C().rule="S10 (sequential): the peer of a {unix stream, TCP loopback} socket {closes, shutdown RDWR/WR/RD, sends a byte, does nothing} while {reader, writer, both} are armed on our end with send buffer {empty, full} and {0,1} inbound bytes, for each reactor: when poll(2) reports hang-up/error every armed handler has run (epoll, poll), a direction poll(2) reports ready has run, every handler exactly once after the final cancel. S9 (sequential): descriptor number reuse - a pending wait on descriptor N, N goes away {cancel then close, raw close then cancel, raw close + a new socket takes N + cancel}, then a new ready socket with number N is waited on (readable/writable, 1 or 2 rounds) for each reactor: old handler exactly once, new handler exactly once with success. S8 (sequential): a wait armed and cancelled (cancel_io_events / stream_socket::cancel / close) while the loop is not running (before the first run(), after stop()+reset()) x readable/idle descriptor x 3 reactors: handler exactly once with a cancellation or error code, never success. S7 (sequential): I/O waits whose registration the reactor refuses (regular file, closed descriptor, descriptor >= FD_SETSIZE; plus a valid socket) x 3 reactors x {cancel, cancel twice, second wait then cancel, nothing}: each handler exactly once. S6 (sequential): N in {1,2,10,500,999,1000,1001,1500,2500; thorough +5000,12000,20000} simultaneously pending timers x 6 (16) shifts of the slot generator x 5 cancel/expire orders: ids pairwise distinct among pending timers, every handler exactly once with the right code. Scenarios S1 (two producers posting plain/event/io/nested handlers), S2 (timers armed with equal, past and future deadlines and cancelled from another thread, cancel racing expiry, double cancel), S3 (two descriptors becoming readable/writable, writer thread, canceller), S4 (stop racing post) x reactors {epoll, poll, select}, and S5 (thread_pool(2): five jobs, one throwing, one cancelled, stop) - every schedule with <= "+std::to_string(bound)+" preemptions ("+std::to_string(bound-1)+" for S2 and S3); scheduling points: every pthread mutex / condition operation, poll/epoll_wait/select, explicit yields around descriptor writes; virtual clock. states = distinct handler-outcome vectors, transitions = scheduling decisions, traces = executions of the real code";
	vf::assume("a loop that sleeps until its one-hour poll timeout while handlers are pending is reported as a lost wake-up (the virtual clock would have to jump past every deadline the scenario armed)"); vf::assume("timers are armed on the millisecond grid; the virtual clock only takes values on that grid"); vf::assume("the data-race clause is decided by ThreadSanitizer on free-running executions of the same scenarios");
	if(!vf::C().replay_file.empty()) printf("replay: the replay file names scenario, reactor and schedule (choice vector); re-running the quick tier reproduces it\n");
	std::vector<std::pair<int,int> > jobs; for(size_t si=0;si<S.size();si++) for(int r=0;r<3;r++) jobs.push_back(std::make_pair(si,r)); jobs.push_back(std::make_pair(-1,0)); for(int k=0;k<3;k++) jobs.push_back(std::make_pair(-2,k));
	vf::parallel(jobs.size(),16,[&](int j){ if(jobs[j].first==-2){ timers_pass(jobs[j].second,3); if(jobs[j].second==0) failing_registration_pass(); if(jobs[j].second==1) peer_ending_pass(); } else if(jobs[j].first<0){ Scenario p=pool_scenario(); run_scenario(p,0,"n/a",bound,true); } else { int sb= (jobs[j].first==1||jobs[j].first==2)? bound-1 : bound; /* S2 and S3 have many more scheduling points (time advances, five threads) */ run_scenario(S[jobs[j].first],reactors[jobs[j].second],rn[jobs[j].second],sb,false); } vf::guard("executions",n_exec); },th?1700:280);
	{ std::string cmd=std::string("timeout -k 5 ")+(vf::thorough()?"1500 ":"400 ")+vf::verif_dir()+"/build/bin/C17.tsan --tier "+vf::C().tier+" --pass tsan --result '"+vf::scratch_dir()+"/tsan.res' 2>'"+vf::scratch_dir()+"/tsan.err'"; int st=system(cmd.c_str()); FILE *f=fopen((vf::scratch_dir()+"/tsan.res").c_str(),"rb"); bool merged=f&&vf::merge_ctx(f); if(f) fclose(f); std::string err; { std::ifstream e(vf::scratch_dir()+"/tsan.err"); std::stringstream ss; ss<<e.rdbuf(); err=ss.str(); }
	  if(WIFEXITED(st)&&(WEXITSTATUS(st)==124||WEXITSTATUS(st)==137)){ vf::violation("free-running-pass-hang","the free-running ThreadSanitizer pass did not terminate within its time limit (livelock, deadlock or a corrupted structure): "+err.substr(0,300),"\"report\":"+vf::jstr(err.substr(0,1500))); }
	  else if(err.find("ThreadSanitizer: data race")!=std::string::npos||(WIFEXITED(st)&&WEXITSTATUS(st)==66)){ size_t p=err.find("WARNING: ThreadSanitizer"); std::string rep= p==std::string::npos?err.substr(0,1500):err.substr(p,1500); std::string fn; size_t q=rep.find("#0 "); if(q!=std::string::npos){ size_t e2=rep.find('\n',q); fn=rep.substr(q,e2-q); } vf::violation("data-race","ThreadSanitizer reports a data race in the free-running pass: "+fn,"\"report\":"+vf::jstr(rep)); } else if(!merged||st!=0){ fprintf(stderr,"harness error: tsan pass failed (status %d): %s\n",st,err.substr(0,800).c_str()); vf::C().harness_error=true; } }
	vf::require_guard("descriptor_number_reuse_cases"); vf::require_guard("peer_ending_cases"); vf::require_guard("peer_ending_hangup_with_unready_writer"); vf::require_guard("executions"); vf::require_guard("executions_with_virtual_time_advance"); vf::require_guard("scenarios_with_several_outcomes"); vf::require_guard("tsan_free_runs"); vf::require_guard("many_timer_cases_with_table_growth"); vf::require_guard("failing_registration_cases"); vf::require_guard("cancel_before_run_cases"); vf::require_guard("io_wait_registrations_refused");
	return vf::finish();
#endif
}
