// C14 - text validators accept exactly the well-formed strings of their encoding.
// Passes:  sweep (rel flavour): every byte window of length 1..4 through cppcms::utf8::next (both modes)
//          and booster utf_traits<char>::decode, vs a grammar-derived RFC 3629 decoder
//          (quick: 4th byte from a 16-value boundary set; thorough: all 2^32).
//          main (asan flavour): all strings of length 1..3 through the same decoders; single-byte validators on all
//          bytes and byte pairs; whole-string validators/counters/filters on all concatenations of catalogue pieces.
#include "vf.h"
#include <cppcms/encoding.h>
#include "utf_iterator.h"
#include <booster/locale/utf.h>
#include <cppcms/service.h>
#include <cppcms/form.h>
#include <cppcms/http_context.h>
#include <cppcms/http_request.h>
#include <cppcms/json.h>
#include "/repo/tests/dummy_api.h"

// ---- reference: RFC 3629 grammar --------------------------------------------------------------
// returns length (1..4) of the well-formed sequence at p (n bytes available) or 0; cp out
static inline int ref_next(const unsigned char *p,size_t n,uint32_t &cp){
	if(n==0) return 0; unsigned char a=p[0];
	if(a<=0x7F){ cp=a; return 1; }
	#define TAIL(x) ((x)>=0x80&&(x)<=0xBF)
	if(a>=0xC2&&a<=0xDF){ if(n<2||!TAIL(p[1])) return 0; cp=((a&0x1F)<<6)|(p[1]&0x3F); return 2; }
	if(a>=0xE0&&a<=0xEF){ if(n<3) return 0; unsigned char b=p[1],c=p[2]; bool ok;
		if(a==0xE0) ok=(b>=0xA0&&b<=0xBF); else if(a==0xED) ok=(b>=0x80&&b<=0x9F); else ok=TAIL(b);
		if(!ok||!TAIL(c)) return 0; cp=((a&0x0F)<<12)|((b&0x3F)<<6)|(c&0x3F); return 3; }
	if(a>=0xF0&&a<=0xF4){ if(n<4) return 0; unsigned char b=p[1],c=p[2],d=p[3]; bool ok;
		if(a==0xF0) ok=(b>=0x90&&b<=0xBF); else if(a==0xF4) ok=(b>=0x80&&b<=0x8F); else ok=TAIL(b);
		if(!ok||!TAIL(c)||!TAIL(d)) return 0; cp=((a&0x07)<<18)|((b&0x3F)<<12)|((c&0x3F)<<6)|(d&0x3F); return 4; }
	return 0;
}
static inline bool html_ok(uint32_t cp){ if(cp==9||cp==10||cp==13) return true; if(cp<0x20) return false; if(cp>=0x7F&&cp<=0x9F) return false; return true; }
// truncated-but-possibly-extendable prefix? (for booster's `incomplete`)
static bool ref_could_extend(const unsigned char *p,size_t n){ // is p[0..n) a proper prefix of some well-formed sequence
	for(int extra=1;extra<=3&&n+extra<=4;extra++){ /* try all completions with tails 80/90/a0/bf */ }
	if(n==0) return true; unsigned char a=p[0]; int need= a<=0x7F?1: (a>=0xC2&&a<=0xDF)?2: (a>=0xE0&&a<=0xEF)?3: (a>=0xF0&&a<=0xF4)?4:0; if(!need||n>=(size_t)need) return false;
	if(n>=2){ unsigned char b=p[1]; bool ok; if(a==0xE0) ok=(b>=0xA0&&b<=0xBF); else if(a==0xED) ok=(b>=0x80&&b<=0x9F); else if(a==0xF0) ok=(b>=0x90&&b<=0xBF); else if(a==0xF4) ok=(b>=0x80&&b<=0x8F); else ok=TAIL(b); if(!ok) return false; }
	if(n>=3&&!TAIL(p[2])) return false; return true; }

static void bad(const std::string &sig,const std::string &what,const std::string &in){ vf::violation(sig,what+" (bytes "+vf::hex(in)+")","\"op\":"+vf::jstr(sig)+",\"input_hex\":"+vf::jstr(vf::hex(in))); }

static uint64_t g_valid_seen=0,g_invalid_seen=0,g_html_rejected=0;
// one window of n bytes through the three decoders
static inline void window(const unsigned char *w,size_t n){
	uint32_t rcp=0; int rl=ref_next(w,n,rcp);
	{ const unsigned char *p=w; uint32_t c=cppcms::utf8::next(p,w+n,false); if(rl){ if(c!=rcp||p-w!=rl) bad("utf8-next:accept","cppcms::utf8::next disagrees with RFC 3629 on a well-formed sequence (value or length)",std::string((const char*)w,n)); } else if(c!=cppcms::utf::illegal) bad("utf8-next:reject","cppcms::utf8::next accepts an ill-formed sequence",std::string((const char*)w,n)); }
	{ const unsigned char *p=w; uint32_t c=cppcms::utf8::next(p,w+n,true); bool want=rl&&html_ok(rcp); if(want){ if(c!=rcp||p-w!=rl) bad("utf8-next-html:accept","cppcms::utf8::next(html) rejects or mis-decodes an allowed character",std::string((const char*)w,n)); } else if(c!=cppcms::utf::illegal) bad("utf8-next-html:reject","cppcms::utf8::next(html) accepts an ill-formed sequence or a C0/C1/DEL control",std::string((const char*)w,n)); if(rl&&!want) g_html_rejected++; }
	{ const char *b=(const char*)w; const char *p=b; uint32_t c=booster::locale::utf::utf_traits<char>::decode(p,b+n); if(rl){ if(c!=rcp||p-b!=rl) bad("booster-decode:accept","booster utf_traits<char>::decode disagrees with RFC 3629 on a well-formed sequence",std::string(b,n)); } else { if(c!=booster::locale::utf::illegal&&c!=booster::locale::utf::incomplete) bad("booster-decode:reject","booster utf_traits<char>::decode accepts an ill-formed sequence",std::string(b,n)); } }
	if(rl) g_valid_seen++; else g_invalid_seen++;
}

static const unsigned char B16[16]={0x00,0x7F,0x80,0x8F,0x90,0x9F,0xA0,0xBF,0xC0,0xC2,0xDF,0xE0,0xED,0xF0,0xF4,0xFF};
static void sweep_shard(int sh,int n){ unsigned char w[4]; bool full=true; uint64_t ev=0; std::set<uint32_t> lens;
	for(int a=sh;a<256;a+=n){ w[0]=a; vf::announce("sweep lead "+std::to_string(a));
		for(int b=0;b<256;b++){ w[1]=b; for(int c=0;c<256;c++){ w[2]=c;
			if(full){ for(int d=0;d<256;d++){ w[3]=d; window(w,4); } ev+=256; }
			else { for(int d=0;d<16;d++){ w[3]=B16[d]; window(w,4); } ev+=16; } } } }
	{ unsigned char sw[3][4]={{0xe2,0x82,0xac,0x41},{0xed,0xa0,0x80,0x80},{0xf4,0x90,0x80,0x80}}; for(int q=0;q<3;q++){ uint32_t cp=0; int l=ref_next(sw[q],4,cp); const unsigned char *pp=sw[q]; const unsigned char *pe=sw[q]+4; uint32_t c=cppcms::utf8::next(pp,pe,false); vf::sample("{\"window_hex\":"+vf::jstr(vf::hex(std::string((char*)sw[q],4)))+",\"reference_length\":"+std::to_string(l)+",\"utf8_next\":"+(c==cppcms::utf::illegal?std::string("\"illegal\""):std::to_string(c))+"}"); } }
	vf::eval(ev); vf::guard("windows_wellformed",g_valid_seen); vf::guard("windows_illformed",g_invalid_seen); vf::guard("html_mode_rejections",g_html_rejected);
	// distinct: classes (lead byte, reference length)
	for(int a=sh;a<256;a+=n){ unsigned char t[4]={(unsigned char)a,0x80,0x80,0x80}; uint32_t cp; vf::outcome("lead"+std::to_string(a)+":"+std::to_string(ref_next(t,4,cp))); unsigned char u[4]={(unsigned char)a,0xA0,0x80,0x80}; vf::outcome("leadA0"+std::to_string(a)+":"+std::to_string(ref_next(u,4,cp))); unsigned char v[4]={(unsigned char)a,0x90,0xBF,0xBF}; vf::outcome("lead90"+std::to_string(a)+":"+std::to_string(ref_next(v,4,cp))); }
}
static void short_shard(int sh,int n){ unsigned char w[3]; uint64_t ev=0; // all strings of length 1..3 in exact-size heap buffers (ASan sees any read past the end)
	for(int a=sh;a<256;a+=n){ { unsigned char *h=new unsigned char[1]; h[0]=a; window(h,1); delete [] h; ev++; }
		for(int b=0;b<256;b++){ { unsigned char *h=new unsigned char[2]; h[0]=a;h[1]=b; window(h,2); delete [] h; ev++; }
			unsigned char *h=new unsigned char[3]; h[0]=a; h[1]=b; for(int c=0;c<256;c++){ h[2]=c; window(h,3); ev++; } delete [] h; } }
	vf::eval(ev); vf::guard("short_strings",ev); }

// ---- single-byte code pages -----------------------------------------------------------------------
static const char *SB_NAMES[]={"latin1","iso-8859-1","ISO-8859-2","iso8859-3","iso-8859-4","iso-8859-5","iso-8859-6","iso-8859-7","iso-8859-8","iso-8859-9","iso-8859-10","iso-8859-11","iso-8859-13","iso-8859-14","iso-8859-15","iso-8859-16",
	"windows-1250","windows-1251","windows-1252","windows-1253","windows-1255","windows-1256","windows-1257","windows-1258","cp1250","cp1251","cp1252","cp1253","cp1255","cp1256","cp1257","CP1258","koi8-r","koi8-u","us-ascii","ASCII"};
static void single_byte(int sh,int n){ int idx=0; for(size_t e=0;e<sizeof(SB_NAMES)/sizeof(*SB_NAMES);e++){ if((idx++%n)!=sh) continue; std::string enc=SB_NAMES[e]; bool iso=enc.find("8859")!=std::string::npos||enc=="latin1";
	if(!cppcms::encoding::is_ascii_compatible(enc)){ fprintf(stderr,"harness error: %s is not in the validator table\n",enc.c_str()); vf::C().harness_error=true; continue; }
	bool ok1[256]; for(int a=0;a<256;a++){ char c=(char)a; size_t cnt=0; ok1[a]=cppcms::encoding::valid(enc,&c,&c+1,cnt); vf::eval();
		bool printable=(a>=0x20&&a<=0x7E)||a==9||a==10||a==13; bool c0=(a<0x20&&a!=9&&a!=10&&a!=13); bool del=a==0x7F; bool c1=(a>=0x80&&a<=0x9F);
		if(printable&&!ok1[a]) bad("single-byte:printable:"+enc,"printable ASCII byte rejected by "+enc,std::string(1,c));
		if((c0||del||(iso&&c1))&&ok1[a]) bad("single-byte:control:"+enc,"C0/DEL/C1 control byte accepted by "+enc,std::string(1,c));
		if(ok1[a]&&cnt!=1) bad("single-byte:count:"+enc,"count of a one-byte valid string is not 1",std::string(1,c));
		{ std::string out="zz"; bool v=cppcms::encoding::validate_or_filter(enc,&c,&c+1,out,0); if(v!=ok1[a]) bad("single-byte:filter-verdict:"+enc,"validate_or_filter verdict differs from valid()",std::string(1,c)); if(!v&&out!="") bad("single-byte:filter-out:"+enc,"filtering an invalid byte without replacement does not yield the empty string",std::string(1,c));
		  std::string o2="zz"; bool v2=cppcms::encoding::validate_or_filter(enc,&c,&c+1,o2,'?'); if(!v2&&o2!="?") bad("single-byte:filter-repl:"+enc,"filtering an invalid byte with replacement does not yield the replacement",std::string(1,c)); }
		vf::outcome(enc+":"+std::to_string(a)+":"+(ok1[a]?"1":"0")); }
	for(int a=0;a<256;a++) for(int b=0;b<256;b++){ char p[2]={(char)a,(char)b}; size_t cnt=0; bool v=cppcms::encoding::valid(enc,p,p+2,cnt); vf::eval(); if(v!=(ok1[a]&&ok1[b])) bad("single-byte:context:"+enc,"verdict on a byte pair is not the conjunction of the verdicts on its bytes in "+enc,std::string(p,2)); if(v&&cnt!=2) bad("single-byte:count2:"+enc,"count of a valid two-byte string is not 2",std::string(p,2));
		if(!v&&(a%16==0||b%16==0)){ std::string out; cppcms::encoding::validate_or_filter(enc,p,p+2,out,0); std::string want; if(ok1[a]) want+=p[0]; if(ok1[b]) want+=p[1]; if(out!=want) bad("single-byte:filter-pair:"+enc,"filtered pair is not the sub-string of valid bytes",std::string(p,2)); } }
	vf::guard("code_pages"); } }

// ---- encodings WITHOUT a table entry: validated by converting to UTF-8 first (iconv / ICU) ------------------------------------
// The HTML-safe rule is the same for them: printable ASCII, tab, LF, CR are valid; every other C0 control and DEL is not, alone or next to
// valid text; validate_or_filter agrees with valid() and removes / replaces exactly the offending byte.
static const char *CONV_NAMES[]={"windows-1254","cp1254","Shift_JIS","EUC-JP","GBK","Big5","EUC-KR","GB2312","windows-874","cp932","ISO-2022-JP?","koi8-t"};
static void converter_backed(int sh,int n){ int idx=0; for(size_t e=0;e<sizeof(CONV_NAMES)/sizeof(*CONV_NAMES);e++){ if((idx++%n)!=sh) continue; std::string enc=CONV_NAMES[e]; { size_t c=0; const char *A="Az 09"; if(!cppcms::encoding::valid(enc,A,A+5,c)){ vf::guard("converter_encodings_unavailable"); continue; } }
	bool ok1[128]; for(int a=0;a<128;a++){ char c=(char)a; size_t cnt=0; ok1[a]=cppcms::encoding::valid(enc,&c,&c+1,cnt); vf::eval(); bool printable=(a>=0x20&&a<=0x7E)||a==9||a==10||a==13;
		if(enc.find("JIS")!=std::string::npos||enc.find("932")!=std::string::npos){ if(a==0x5C||a==0x7E) continue; /* yen sign / overline in some converters */ }
		if(printable&&!ok1[a]) bad("converted:printable:"+enc,"printable ASCII byte rejected under "+enc,std::string(1,c)); if(!printable&&ok1[a]) bad("converted:control:"+enc,"C0 control or DEL accepted as valid text under "+enc+" (an encoding validated through conversion to UTF-8)",std::string(1,c));
		{ std::string out="zz"; bool v=cppcms::encoding::validate_or_filter(enc,&c,&c+1,out,0); if(v!=ok1[a]) bad("converted:filter-verdict:"+enc,"validate_or_filter verdict differs from valid() under "+enc,std::string(1,c)); }
		// next to valid text, in both positions
		for(int pos=0;pos<2;pos++){ std::string t= pos? std::string("ab")+c : std::string(1,c)+"ab"; size_t c2=0; bool v=cppcms::encoding::valid(enc,t.data(),t.data()+t.size(),c2); vf::eval(); if(v!=printable) bad(std::string("converted:")+(printable?"printable":"control")+"-in-text:"+enc,std::string(printable?"valid text rejected":"text containing a C0 control or DEL accepted")+" under "+enc,t); if(!printable){ std::string out; bool fv=cppcms::encoding::validate_or_filter(enc,t.data(),t.data()+t.size(),out,0); if(fv||out.find(c)!=std::string::npos) bad("converted:filter-keeps-control:"+enc,"validate_or_filter leaves a control character in the text under "+enc,t); } }
		vf::outcome(enc+":"+std::to_string(a)+":"+(ok1[a]?"1":"0")); }
	vf::guard("converter_backed_encodings"); } }

// ---- whole-string functions on catalogue concatenations ------------------------------------------
static std::vector<std::string> catalogue(bool small){ std::vector<std::string> c; const char *p[]={
	"A","\x7f","\t","\n","\x01","\x00" /*NUL handled below*/, " ",
	"\xc2\x80","\xc2\x9f","\xc2\xa0","\xdf\xbf","\xe0\xa0\x80","\xed\x9f\xbf","\xee\x80\x80","\xef\xbf\xbf","\xf0\x90\x80\x80","\xf4\x8f\xbf\xbf","\xe2\x82\xac",
	"\xc0\x80","\xc1\xbf","\xe0\x9f\xbf","\xf0\x8f\xbf\xbf","\xed\xa0\x80","\xed\xbf\xbf","\xf4\x90\x80\x80","\xf5\x80\x80\x80","\xff","\xfe",
	"\xc2","\xe2","\xe2\x82","\xf0","\xf0\x90","\xf0\x90\x80","\x80","\xbf","\xe0\x80","\xf8\x88\x80\x80\x80"};
	size_t lens[]={1,1,1,1,1,1,1, 2,2,2,2,3,3,3,3,4,4,3, 2,2,3,4,3,3,4,4,1,1, 1,1,2,1,2,3,1,1,2,5};
	for(size_t i=0;i<sizeof(lens)/sizeof(*lens);i++) c.push_back(std::string(p[i],lens[i]));
	if(small){ std::vector<std::string> s; size_t pick[]={0,1,2,4,5,7,9,11,12,15,16,18,20,22,24,26,28,30,33,34}; for(size_t i=0;i<sizeof(pick)/sizeof(*pick);i++) s.push_back(c[pick[i]]); return s; }
	return c; }
struct Item { bool keep; std::string s; size_t maxrepl; };
static bool ref_string(const std::string &s,size_t &count,std::vector<Item> &items){ bool valid=true; count=0; const unsigned char *p=(const unsigned char*)s.data(); size_t n=s.size(),i=0;
	while(i<n){ uint32_t cp; int l=ref_next(p+i,n-i,cp); if(l&&html_ok(cp)){ if(!items.empty()&&items.back().keep) items.back().s.append(s,i,l); else { Item it; it.keep=true; it.s.assign(s,i,l); it.maxrepl=0; items.push_back(it);} i+=l; count++; }
		else { valid=false; size_t adv=l?l:1; if(!items.empty()&&!items.back().keep) items.back().maxrepl+=adv; else { Item it; it.keep=false; it.maxrepl=adv; items.push_back(it);} i+=adv; } }
	return valid; }
static bool match_filtered(const std::vector<Item> &items,const std::string &out,char repl){ size_t pos=0; for(size_t k=0;k<items.size();k++){ if(items[k].keep){ if(out.compare(pos,items[k].s.size(),items[k].s)) return false; pos+=items[k].s.size(); }
		else if(repl){ size_t cnt=0; while(pos<out.size()&&out[pos]==repl&&cnt<items[k].maxrepl){ pos++; cnt++; } if(cnt<1) return false; } }
	return pos==out.size(); }
static void string_case(const std::string &s){ vf::eval(); vf::announce("string "+vf::hex(s)); size_t rc; std::vector<Item> items; bool rv=ref_string(s,rc,items); const char *b=s.data(),*e=s.data()+s.size();
	{ size_t c=0; bool v=cppcms::encoding::valid_utf8(b,e,c); if(v!=rv) bad(rv?"valid_utf8:reject":"valid_utf8:accept","valid_utf8 verdict differs from RFC 3629 + HTML-safe rule",s); else if(v&&c!=rc) bad("valid_utf8:count","valid_utf8 count is not the number of code points",s); }
	{ size_t c=0; bool v=cppcms::encoding::valid("UTF-8",b,e,c); if(v!=rv) bad("valid:utf8-verdict","valid(\"UTF-8\") verdict differs",s); else if(v&&c!=rc) bad("valid:utf8-count","valid(\"UTF-8\") count is not the number of code points",s); }
	{ size_t c=0; std::string n("utf8"); bool v=cppcms::encoding::valid(n,b,e,c); if(v!=rv) bad("valid:utf8-name","valid(\"utf8\") verdict differs",s); }
	for(int r=0;r<2;r++){ char repl=r?'?':0; std::string out="PRE"; bool v=cppcms::encoding::validate_or_filter("utf-8",b,e,out,repl);
		if(v!=rv) bad("filter:verdict","validate_or_filter verdict differs from the reference",s);
		else if(!v){ size_t c2; std::vector<Item> i2; if(!ref_string(out,c2,i2)) bad("filter:output-invalid","validate_or_filter output is itself not valid",s); else if(!match_filtered(items,out,repl)) bad(r?"filter:content-repl":"filter:content","validate_or_filter output is not the input with each invalid unit dropped/replaced: "+vf::hex(out),s); vf::guard("filtered"); }
		else if(out!="PRE"){ /* valid input: output may be untouched or a copy */ if(out!=s) bad("filter:valid-changed","validate_or_filter changed valid text",s); } }
	{ static uint64_t sc=0; if(vf::sample_tick(sc,40009)) vf::sample("{\"string_hex\":"+vf::jstr(vf::hex(s))+",\"reference_valid\":"+(rv?"true":"false")+",\"code_points\":"+std::to_string(rc)+",\"units\":"+std::to_string(items.size())+"}"); }
	vf::outcome(std::string(rv?"v":"i")+std::to_string(rc)+":"+std::to_string(items.size())+":"+vf::hex(s.substr(0,6))); }
static void strings_shard(int sh,int n){ bool th=vf::thorough(); std::vector<std::string> full=catalogue(false),small=catalogue(true); uint64_t idx=0;
	std::function<void(const std::vector<std::string>&,std::string&,int,int)> rec=[&](const std::vector<std::string> &cat,std::string &cur,int d,int maxd){ if(d==maxd){ if((idx++%n)==(uint64_t)sh) string_case(cur); return; } for(size_t i=0;i<cat.size();i++){ size_t l=cur.size(); cur+=cat[i]; rec(cat,cur,d+1,maxd); cur.resize(l);} };
	std::string cur; for(int d=0;d<=3;d++) rec(full,cur,0,d); if(th) rec(full,cur,0,4); else rec(small,cur,0,4); vf::guard("catalogue_strings",idx/n);
	// every byte string of length 1 and 2 (all 256 / 65536) through the whole-string validators, counters and filters too (the decoders have their own exhaustive sweep)
	{ uint64_t j=0; for(int a=0;a<256;a++){ if((j++%n)==(uint64_t)sh) string_case(std::string(1,(char)a)); for(int b=0;b<256;b++){ if((j++%n)!=(uint64_t)sh) continue; std::string t; t+=(char)a; t+=(char)b; string_case(t); } } vf::guard("all_one_and_two_byte_strings",j/n); } }


// ---- form layer: widgets::text rejects invalid text and counts code points for its length limits -----------------------
static void form_shard(int sh,int n){ const char *locs[]={"en_US.UTF-8","en_US.ISO-8859-1"}; for(int li=0;li<2;li++){ cppcms::json::value cfg; cfg["service"]["api"]="http"; cfg["service"]["port"]=0; cfg["service"]["disable_global_exit_handling"]=true; cfg["localization"]["locales"][0]=locs[li]; cfg["logging"]["level"]="emergency"; cppcms::service srv(cfg); std::string out; std::map<std::string,std::string> env; env["REQUEST_METHOD"]="POST"; env["CONTENT_TYPE"]="application/x-www-form-urlencoded";
		std::vector<std::string> cat=catalogue(false); uint64_t idx=0; int lims[][2]={{0,-1},{1,3},{2,2},{0,0}};
		std::function<void(std::string&,int,int)> rec=[&](std::string &cur,int d,int maxd){ if(d==maxd){ if((idx++%n)!=(uint64_t)sh) return; booster::shared_ptr<dummy_api> api(new dummy_api(srv,env,out)); booster::shared_ptr<cppcms::http::context> ctx(new cppcms::http::context(api)); ctx->request().post_.insert(std::make_pair(std::string("t"),cur)); // reference
				bool rv; size_t rc=0; if(li==0){ std::vector<Item> items; rv=ref_string(cur,rc,items); } else { rv=true; rc=cur.size(); for(size_t i=0;i<cur.size();i++){ unsigned char c=cur[i]; if(c==9||c==10||c==13) continue; if(c<0x20||(c>=0x7F&&c<0xA0)) rv=false; } }
				for(int l=0;l<4;l++){ vf::eval(); cppcms::widgets::text t; t.name("t"); t.limits(lims[l][0],lims[l][1]); t.load(*ctx); bool v=t.validate(); bool want= rv&&rc>=(size_t)lims[l][0]&&(lims[l][1]<0||rc<=(size_t)lims[l][1]); if(v!=want) bad(std::string(want?"form:rejects-valid:":"form:accepts-invalid:")+locs[li],std::string("widgets::text with limits(")+std::to_string(lims[l][0])+","+std::to_string(lims[l][1])+") in a "+locs[li]+" context "+(v?"accepts":"rejects")+" a value that is "+(rv?"valid with "+std::to_string(rc)+" code points":"not valid text"),cur); else vf::guard("form_widget_cases"); if(!v&&rv) vf::guard("form_rejected_by_length"); } return; }
			for(size_t i=0;i<cat.size();i++){ size_t l=cur.size(); cur+=cat[i]; rec(cur,d+1,maxd); cur.resize(l);} };
		std::string cur; for(int d=0;d<=(vf::thorough()?3:2);d++) rec(cur,0,d); } }

int main(int argc,char **argv){ vf::init(argc,argv,"C14","exploration"); int n=16;
	if(!vf::C().replay_file.empty()){ std::ifstream f(vf::C().replay_file); std::stringstream ss; ss<<f.rdbuf(); std::string in=vf::unhex(vf::jfield(ss.str(),"input_hex")); window((const unsigned char*)in.data(),std::min<size_t>(in.size(),4)); string_case(in); printf("replayed %s\n",vf::hex(in).c_str()); return vf::finish(); }
	if(vf::C().pass=="sweep"){ vf::parallel(n,n,[&](int sh){ sweep_shard(sh,n); },1500); return vf::finish(); }
	vf::C().rule=std::string("UTF-8: every byte window of length 4 (")+"all 2^32"+") and every string of length 1..3 through cppcms::utf8::next (plain and HTML-safe) and booster utf_traits<char>::decode vs a grammar-derived RFC 3629 decoder (value, length, verdict); single-byte: all 256 bytes and all 65536 pairs for 36 code-page names; whole strings: every byte string of length 1 and 2, and every concatenation of <=3 (and 4: "+(vf::thorough()?"full":"20-piece sub-catalogue")+") pieces of a 38-piece catalogue through valid/valid_utf8/validate_or_filter with and without replacement; form layer: widgets::text with limits {(0,inf),(1,3),(2,2),(0,0)} in a UTF-8 and an ISO-8859-1 context loaded with every concatenation of <= 2 (thorough 3) catalogue pieces. distinct = (lead-byte class, reference length), (code page, byte, verdict), (string verdict, code points, unit structure); non-trivial: all";
	vf::assume("C0/C1 controls are read as Unicode Cc incl. U+007F (the statement names DEL for the single-byte family; the code rejects it in HTML-safe UTF-8 as well)");
	vf::assume("filtering: resynchronisation is byte-wise after an ill-formed lead; between 1 and n replacement characters per run of n invalid bytes are accepted");
	vf::run_sub("rel","sweep");
	vf::parallel(n,n,[&](int sh){ short_shard(sh,n); single_byte(sh,n); converter_backed(sh,n); strings_shard(sh,n); form_shard(sh,n); },1500);
	vf::require_guard("windows_wellformed"); vf::require_guard("html_mode_rejections"); vf::require_guard("code_pages"); vf::require_guard("converter_backed_encodings"); vf::require_guard("filtered"); vf::require_guard("short_strings"); vf::require_guard("form_widget_cases"); vf::require_guard("form_rejected_by_length");
	return vf::finish(); }
