// C15 - HTML escaping neutralises markup; URL and base64url codecs are exact inverses.
// Bounded-exhaustive: all byte strings of length 0..2 on every output path, all strings 0..3 for
// base64 (thorough; quick: all 0..2 + a 16^3 grid), lengths 0..1024 for the size formulas, decoders on
// all strings <= 4 over a 9-character alphabet and on every %XY pair, and - as an environment
// answer - a sink that accepts exactly k bytes for every k in 0..len(output).
#include "vf.h"
#include <cppcms/util.h>
#include <cppcms/base64.h>
#include <cppcms/filters.h>
#include <cppcms/form.h>
#include <sstream>

using namespace cppcms;

struct LimBuf : public std::streambuf { std::string got; size_t cap; LimBuf(size_t c):cap(c){}
	int overflow(int c){ if(c==EOF) return 0; if(got.size()>=cap) return EOF; got+=(char)c; return (unsigned char)c; }
	std::streamsize xsputn(const char *s,std::streamsize n){ size_t room=cap-got.size(); size_t m=std::min<size_t>(n,room); got.append(s,m); return m; } };

static std::string ref_unescape(const std::string &s,bool &clean){ std::string r; clean=true; for(size_t i=0;i<s.size();){ char c=s[i];
		if(c=='<'||c=='>'||c=='"'||c=='\''){ clean=false; r+=c; i++; continue; }
		if(c=='&'){ if(!s.compare(i,4,"&lt;")){r+='<';i+=4;} else if(!s.compare(i,4,"&gt;")){r+='>';i+=4;} else if(!s.compare(i,5,"&amp;")){r+='&';i+=5;} else if(!s.compare(i,6,"&quot;")){r+='"';i+=6;} else if(!s.compare(i,5,"&#39;")){r+='\'';i+=5;} else { clean=false; r+=c; i++; } continue; }
		r+=c; i++; } return r; }
static bool unreserved(unsigned char c){ return (c>='a'&&c<='z')||(c>='A'&&c<='Z')||(c>='0'&&c<='9')||c=='-'||c=='_'||c=='.'||c=='~'; }
static bool ishex(unsigned char c){ return (c>='0'&&c<='9')||(c>='a'&&c<='f')||(c>='A'&&c<='F'); }
static int hexv(unsigned char c){ return c<='9'?c-'0':(c|32)-'a'+10; }
// url-encoded text well-formed: only unreserved and %XX; returns decoded
static bool ref_urldecode_strict(const std::string &s,std::string &out){ out.clear(); for(size_t i=0;i<s.size();){ unsigned char c=s[i]; if(unreserved(c)){ out+=(char)c; i++; } else if(c=='%'&&i+2<s.size()&&ishex(s[i+1])&&ishex(s[i+2])){ out+=(char)(hexv(s[i+1])*16+hexv(s[i+2])); i+=3; } else return false; } return true; }
static const char B64[]="ABCDEFGHIJKLMNOPQRSTUVWXYZabcdefghijklmnopqrstuvwxyz0123456789-_";
static std::string ref_b64(const std::string &s){ std::string r; size_t i=0; for(;i+3<=s.size();i+=3){ unsigned v=((unsigned char)s[i]<<16)|((unsigned char)s[i+1]<<8)|(unsigned char)s[i+2]; r+=B64[v>>18]; r+=B64[(v>>12)&63]; r+=B64[(v>>6)&63]; r+=B64[v&63]; }
	if(s.size()-i==1){ unsigned v=(unsigned char)s[i]<<16; r+=B64[v>>18]; r+=B64[(v>>12)&63]; } else if(s.size()-i==2){ unsigned v=((unsigned char)s[i]<<16)|((unsigned char)s[i+1]<<8); r+=B64[v>>18]; r+=B64[(v>>12)&63]; r+=B64[(v>>6)&63]; } return r; }

static void bad(const std::string &sig,const std::string &what,const std::string &in){ vf::violation(sig,what+" (input: "+std::to_string(in.size())+" bytes, hex "+vf::hex(in.substr(0,120))+(in.size()>120?"...":"")+")","\"op\":"+vf::jstr(sig)+",\"input_hex\":"+vf::jstr(vf::hex(in))); }

// ---- escape on all paths ---------------------------------------------------------------------
static void check_escaped(const char *path,const std::string &in,const std::string &out){ bool clean; std::string back=ref_unescape(out,clean);
	if(!clean) bad(std::string("escape-markup:")+path,std::string("escaped text on path ")+path+" still contains markup: "+vf::vis(out),in);
	else if(back!=in) bad(std::string("escape-inverse:")+path,std::string("escaped text on path ")+path+" does not un-escape to the input: "+vf::vis(out),in); }
static void escape_case(const std::string &s){ vf::eval(); vf::announce("escape len="+std::to_string(s.size())+" "+vf::hex(s.substr(0,400)));
	std::string e1=util::escape(s); check_escaped("string",s,e1);
	{ std::stringbuf sb; int r=util::escape(s.data(),s.data()+s.size(),sb); if(r!=0) bad("escape-ret:streambuf","escape to a healthy streambuf reported failure",s); check_escaped("streambuf",s,sb.str()); }
	{ std::ostringstream o; util::escape(s.data(),s.data()+s.size(),o); if(!o) bad("escape-ret:ostream","escape to a healthy ostream set failbit",s); check_escaped("ostream",s,o.str()); }
	{ std::ostringstream o; o<<filters::escape(s); if(!o) bad("escape-ret:filter","filters::escape set failbit on a healthy stream",s); check_escaped("filters::escape",s,o.str()); }
	{ std::ostringstream o; o<<"["<<filters::escape(s)<<"]"<<filters::escape(s); check_escaped("filters::escape-twice",s+"]"+s,o.str().substr(1)); }
	{ widgets::text t; t.value(s); std::ostringstream o; form_context ctx(o); t.render_value(ctx); std::string r=o.str(); if(r.size()<9||r.compare(0,8," value=\"")||r[r.size()-1]!='"') bad("escape-shape:widget","text widget value attribute has an unexpected shape: "+vf::vis(r),s); else check_escaped("widgets::text",s,r.substr(8,r.size()-9)); }
	{ widgets::textarea t; t.value(s); std::ostringstream o; form_context ctx(o); ctx.widget_part(form_flags::second_part); t.render_input(ctx); std::string r=o.str(); size_t a=r.find('>'),z=r.rfind("</textarea>"); if(a==std::string::npos||z==std::string::npos||z<a) bad("escape-shape:textarea","textarea rendering has an unexpected shape: "+vf::vis(r),s); else check_escaped("widgets::textarea",s,r.substr(a+1,z-a-1)); }
	vf::outcome("esc|"+e1); { static uint64_t sc=0; if(vf::sample_tick(sc,9973)) vf::sample("{\"codec\":\"escape\",\"input_hex\":"+vf::jstr(vf::hex(s.substr(0,16)))+",\"output\":"+vf::jstr(e1.substr(0,40))+",\"sink_capacities_tried\":"+std::to_string(e1.size()+1)+"}"); }
	// failing sinks: every capacity k (for outputs beyond 2000 bytes: every 509th capacity and the last 3)
	for(size_t k=0;k<=e1.size();k+= (e1.size()>2000&&k+3<e1.size()? std::min<size_t>(509,e1.size()-3-k):1)){ vf::eval();
		{ LimBuf lb(k); int r=util::escape(s.data(),s.data()+s.size(),lb); if(lb.got!=e1.substr(0,lb.got.size())||lb.got.size()>k) bad("escape-sink-prefix:streambuf","bytes delivered to a short sink are not a prefix of the correct output",s); if((r!=0)!=(k<e1.size())) vf::guard("info_sink_failure_not_reported"); if(k<e1.size()) vf::guard("sink_failures_seen"); }
		{ LimBuf lb(k); std::ostream o(&lb); util::escape(s.data(),s.data()+s.size(),o); if(lb.got!=e1.substr(0,lb.got.size())) bad("escape-sink-prefix:ostream","bytes delivered to a short sink are not a prefix of the correct output",s); if(o.fail()!=(k<e1.size())) vf::guard("info_sink_failure_not_reported"); }
		{ LimBuf lb(k); std::ostream o(&lb); o<<filters::escape(s); if(lb.got!=e1.substr(0,lb.got.size())) bad("escape-sink-prefix:filter","bytes delivered to a short sink are not a prefix of the correct output",s); if(o.fail()!=(k<e1.size())) vf::guard("info_sink_failure_not_reported"); }
	}
}
// ---- urlencode / urldecode ----------------------------------------------------------------------
static void check_urlenc(const char *path,const std::string &in,const std::string &out){ std::string back; if(!ref_urldecode_strict(out,back)) bad(std::string("urlencode-alphabet:")+path,std::string("urlencode output on path ")+path+" has characters other than unreserved and %XX: "+vf::vis(out),in);
	else if(back!=in) bad(std::string("urlencode-value:")+path,"urlencode output decodes (by the reference) to something else",in);
	if(util::urldecode(out)!=in) bad(std::string("urldecode-inverse:")+path,"urldecode(urlencode(x)) != x",in);
	if(util::urldecode(out.data(),out.data()+out.size())!=in) bad(std::string("urldecode-inverse-ptr:")+path,"urldecode(ptr)(urlencode(x)) != x",in); }
static void url_case(const std::string &s){ vf::eval(); vf::announce("url len="+std::to_string(s.size())+" "+vf::hex(s.substr(0,400)));
	std::string e1=util::urlencode(s); check_urlenc("string",s,e1);
	{ std::stringbuf sb; int r=util::urlencode(s.data(),s.data()+s.size(),sb); if(r!=0) bad("urlencode-ret:streambuf","urlencode to a healthy streambuf reported failure",s); if(sb.str()!=e1) bad("urlencode-paths:streambuf","streambuf path differs from string path",s); }
	{ std::ostringstream o; util::urlencode(s.data(),s.data()+s.size(),o); if(!o||o.str()!=e1) bad("urlencode-paths:ostream","ostream path differs from string path",s); }
	{ std::ostringstream o; o<<filters::urlencode(s); if(!o||o.str()!=e1) bad("urlencode-paths:filter","filters::urlencode differs from string path: "+vf::vis(o.str()),s); }
	vf::outcome("url|"+e1);
	for(size_t k=0;k<=e1.size();k+= (e1.size()>2000&&k+3<e1.size()? std::min<size_t>(509,e1.size()-3-k):1)){ vf::eval();
		{ LimBuf lb(k); int r=util::urlencode(s.data(),s.data()+s.size(),lb); if(lb.got!=e1.substr(0,lb.got.size())) bad("urlencode-sink-prefix:streambuf","bytes delivered to a short sink are not a prefix of the correct output",s); if((r!=0)!=(k<e1.size())) vf::guard("info_sink_failure_not_reported"); }
		{ LimBuf lb(k); std::ostream o(&lb); util::urlencode(s.data(),s.data()+s.size(),o); if(lb.got!=e1.substr(0,lb.got.size())) bad("urlencode-sink-prefix:ostream","bytes delivered to a short sink are not a prefix of the correct output",s); if(o.fail()!=(k<e1.size())) vf::guard("info_sink_failure_not_reported"); }
		{ LimBuf lb(k); std::ostream o(&lb); o<<filters::urlencode(s); if(lb.got!=e1.substr(0,lb.got.size())) bad("urlencode-sink-prefix:filter","bytes delivered to a short sink are not a prefix of the correct output",s); if(o.fail()!=(k<e1.size())) vf::guard("info_sink_failure_not_reported"); }
	}
}
// decoder on arbitrary text: must not crash; on text whose every % starts a valid escape, equals the reference
static void urldecode_case(const std::string &s){ vf::eval(); vf::announce("urldecode "+vf::hex(s)); std::string d=util::urldecode(s); std::string d2=util::urldecode(s.data(),s.data()+s.size()); if(d!=d2) bad("urldecode-overloads","the two urldecode overloads disagree",s);
	// the pointer-range overload must not look at *end: an exact-size heap copy (ASan sees a read past it) and a range that is followed in memory by hex digits
	{ char *ex=new char[s.size()?s.size():1]; memcpy(ex,s.data(),s.size()); std::string d3=util::urldecode(ex,ex+s.size()); delete [] ex; if(d3!=d) bad("urldecode-range-exact","urldecode(begin,end) on an exact-size buffer differs from urldecode(string)",s);
	  std::string big=s+"41%41"; std::string d4=util::urldecode(big.data(),big.data()+s.size()); if(d4!=d) bad("urldecode-reads-past-end","urldecode(begin,end) depends on the bytes after end: got "+vf::vis(d4)+" instead of "+vf::vis(d),s); }
	std::string ref; bool wf=true; for(size_t i=0;i<s.size();){ unsigned char c=s[i]; if(c=='+'){ ref+=' '; i++; } else if(c=='%'){ if(i+2<s.size()&&ishex(s[i+1])&&ishex(s[i+2])){ ref+=(char)(hexv(s[i+1])*16+hexv(s[i+2])); i+=3; } else { wf=false; break; } } else { ref+=(char)c; i++; } }
	if(wf){ vf::guard("urldecode_wellformed"); if(d!=ref) bad("urldecode-value","urldecode of well-formed text differs from the reference: got "+vf::vis(d),s); } else { vf::guard("urldecode_malformed"); if(d.size()>s.size()) bad("urldecode-grow","urldecode output longer than input",s); }
	vf::outcome("ud|"+d+(wf?"|w":"|m")); }
// ---- base64url ----------------------------------------------------------------------------------
static void b64_case(const std::string &s,bool sinks){ vf::eval(); vf::announce("b64 len="+std::to_string(s.size())+" "+vf::hex(s.substr(0,400))); std::string want=ref_b64(s);
	std::string e=b64url::encode(s); if(e!=want) bad("b64-encode:string","base64url encode(string) differs from the reference: "+vf::vis(e),s);
	int es=b64url::encoded_size(s.size()); if(es!=(int)want.size()) bad("b64-encoded_size","encoded_size is not the number of characters produced",s);
	{ std::vector<unsigned char> buf(es+16,0xA5); const unsigned char *b=(const unsigned char*)s.data(); unsigned char *end=b64url::encode(b,b+s.size(),&buf[8]); if(end-&buf[8]!=es) bad("b64-encode-ptr-len","encode(ptr) end pointer != encoded_size",s); if(std::string((char*)&buf[8],es)!=want) bad("b64-encode:ptr","encode(ptr) output differs",s); for(int i=0;i<8;i++) if(buf[i]!=0xA5||buf[8+es+i]!=0xA5) bad("b64-encode-canary","encode(ptr) wrote outside [target,target+encoded_size)",s);
	  // exact-size heap buffer so ASan sees any byte past the end
	  unsigned char *ex=new unsigned char[es?es:1]; b64url::encode(b,b+s.size(),ex); delete [] ex; }
	{ std::ostringstream o; const unsigned char *b=(const unsigned char*)s.data(); b64url::encode(b,b+s.size(),o); if(!o||o.str()!=want) bad("b64-encode:ostream","encode(ostream) output differs",s); }
	{ std::ostringstream o; o<<filters::base64_urlencode(s); if(!o||o.str()!=want) bad("b64-encode:filter","filters::base64_urlencode output differs: "+vf::vis(o.str()),s); }
	for(size_t i=0;i<e.size();i++) if(!strchr(B64,e[i])||e[i]==0) bad("b64-alphabet","encoded text has a character outside [A-Za-z0-9_-]",s);
	// decode
	{ std::string out="DIRTY-OUTPUT-BUFFER"; bool ok=b64url::decode(want,out); if(!ok) bad("b64-decode-refused","decode refused text produced by encode",s); else if(out!=s) bad(s.empty()?"b64-decode-empty-dirty":"b64-decode-inverse","decode(encode(x)) into a non-empty output string gives "+vf::vis(out.substr(0,40))+" instead of x",s); }
	{ std::string out; bool ok=b64url::decode(want,out); if(!ok||out!=s) bad("b64-decode-inverse-clean","decode(encode(x)) != x",s); }
	{ int ds=b64url::decoded_size(want.size()); if(ds!=(int)s.size()) bad("b64-decoded_size","decoded_size(len(encode(x))) != len(x)",s); else { unsigned char *ex=new unsigned char[ds?ds:1]; const unsigned char *b=(const unsigned char*)want.data(); unsigned char *end=b64url::decode(b,b+want.size(),ex); if(end-ex!=ds||std::string((char*)ex,ds)!=s) bad("b64-decode:ptr","decode(ptr) output differs or end pointer != decoded_size",s); delete [] ex; } }
	vf::outcome("b64|"+e); { static uint64_t sc=0; if(vf::sample_tick(sc,20011)) vf::sample("{\"codec\":\"base64url\",\"input_hex\":"+vf::jstr(vf::hex(s.substr(0,16)))+",\"output\":"+vf::jstr(e.substr(0,40))+"}"); }
	if(sinks) for(size_t k=0;k<=want.size();k++){ vf::eval(); LimBuf lb(k); std::ostream o(&lb); const unsigned char *b=(const unsigned char*)s.data(); b64url::encode(b,b+s.size(),o); if(lb.got!=want.substr(0,lb.got.size())) bad("b64-sink-prefix","bytes delivered to a short sink are not a prefix of the correct output",s); if(o.fail()!=(k<want.size())) vf::guard("info_sink_failure_not_reported");
		LimBuf l2(k); std::ostream o2(&l2); o2<<filters::base64_urlencode(s); if(l2.got!=want.substr(0,l2.got.size())) bad("b64-sink-prefix:filter","bytes delivered to a short sink are not a prefix of the correct output",s); if(o.fail()!=(k<want.size())) vf::guard("info_sink_failure_not_reported"); }
}
static void b64_decode_arbitrary(const std::string &s){ vf::eval(); vf::announce("b64dec "+vf::hex(s)); int ds=b64url::decoded_size(s.size()); std::string out="zz"; bool ok=b64url::decode(s,out);
	if(ok!=(ds>=0)) bad("b64-decode-arb-ret","decode(string) verdict differs from decoded_size>=0",s);
	if(ok&&(int)out.size()!=ds&&!(s.empty())) bad("b64-decode-arb-size","decode(string) produced a length different from decoded_size",s);
	if(ds>=0){ unsigned char *ex=new unsigned char[ds?ds:1]; const unsigned char *b=(const unsigned char*)s.data(); unsigned char *end=b64url::decode(b,b+s.size(),ex); if(end-ex!=ds) bad("b64-decode-arb-ptr","decode(ptr) wrote a number of bytes different from decoded_size",s); delete [] ex; vf::guard("b64_arbitrary_decoded"); }
	vf::outcome("bd|"+std::string(ok?"1":"0")+out); }

// an object whose operator<< writes several pieces: the template filters receive the pieces through their own stream buffer
// (128 bytes), so the result must not depend on how the text is split into writes
struct Pieces { std::vector<std::string> p; };
static std::ostream &operator<<(std::ostream &o,const Pieces &x){ for(size_t i=0;i<x.p.size();i++) o.write(x.p[i].data(),x.p[i].size()); return o; }
static void pieces_case(const std::vector<std::string> &p){ vf::eval(); Pieces x; x.p=p; std::string whole,desc; for(size_t i=0;i<p.size();i++){ whole+=p[i]; desc+=(i?"+":"")+std::to_string(p[i].size()); } vf::announce("pieces "+desc+" "+vf::hex(whole.substr(0,300)));
	{ std::ostringstream o; o<<filters::escape(x); if(o.str()!=util::escape(whole)) bad("escape-pieces:filter","filters::escape of an object written in pieces of "+desc+" bytes differs from the escape of the whole text",whole); }
	{ std::ostringstream o; o<<filters::urlencode(x); if(o.str()!=util::urlencode(whole)) bad("urlencode-pieces:filter","filters::urlencode of an object written in pieces of "+desc+" bytes differs from the encoding of the whole text",whole); }
	{ std::ostringstream o; o<<filters::base64_urlencode(x); std::string want=b64url::encode(whole); if(o.str()!=want) bad("b64-pieces:filter","filters::base64_urlencode of an object written in pieces of "+desc+" bytes differs from the encoding of the whole text",whole); }
	{ std::ostringstream o; o<<filters::raw(x); if(o.str()!=whole) bad("raw-pieces:filter","filters::raw of an object written in pieces differs from the text",whole); }
	vf::guard("piecewise_writes"); }
static void pieces_pass(int sh,int n){ int lens[]={0,1,2,5,63,64,126,127,128,129,130,200,255,256,257,300,1000}; int NL=sizeof(lens)/sizeof(*lens); int idx=0; auto mk=[](int len,int salt){ std::string m; for(int i=0;i<len;i++) m+="a<&\"'>%\xc3\xa9 +=/"[(i+salt)%13]; return m; };
	for(int a=0;a<NL;a++) for(int b=0;b<NL;b++){ if((idx++%n)!=sh) continue; std::vector<std::string> p; p.push_back(mk(lens[a],1)); p.push_back(mk(lens[b],4)); pieces_case(p); for(int c=0;c<NL;c+=3){ p.resize(2); p.push_back(mk(lens[c],7)); pieces_case(p); } }
	// many one-byte writes, and a long run of 7-byte writes crossing several buffer fills
	if(sh==0){ std::vector<std::string> p; for(int i=0;i<300;i++) p.push_back(std::string(1,"<a&"[i%3])); pieces_case(p); p.clear(); for(int i=0;i<80;i++) p.push_back(mk(7,i)); pieces_case(p); } }
template<class F> void all_strings(int maxlen,const std::string &alpha,int shard,int nshards,F f){ std::string cur; uint64_t idx=0;
	std::function<void(int)> rec=[&](int d){ if((idx++%nshards)==(uint64_t)shard) f(cur); if(d==maxlen) return; for(size_t i=0;i<alpha.size();i++){ cur.push_back(alpha[i]); rec(d+1); cur.erase(cur.size()-1);} }; rec(0); }

static void run_shard(int sh,int n){ std::string all; for(int i=0;i<256;i++) all+=(char)i;
	all_strings(2,all,sh,n,[&](const std::string &s){ escape_case(s); url_case(s); b64_case(s,true); });
	// base64 length 3
	if(vf::thorough()) all_strings(3,all,sh,n,[&](const std::string &s){ if(s.size()==3) b64_case(s,false); });
	else { std::string g; unsigned char gv[]={0,1,2,3,0x0f,0x10,0x3f,0x40,0x7f,0x80,0xbf,0xc0,0xfb,0xfc,0xfe,0xff}; g.assign((char*)gv,16); all_strings(3,g,sh,n,[&](const std::string &s){ if(s.size()==3) b64_case(s,true); }); }
	// lengths 0..1024 (pattern) incl. the 127/128/129 filter-buffer edges; escape/url for lengths around the 128-byte filterbuf with markup at the edge
	for(int len=0;len<=1024;len++){ if(len%n!=sh) continue; std::string s; for(int i=0;i<len;i++) s+=(char)(i*7+len); b64_case(s,len<140); if(len<=300){ std::string m; for(int i=0;i<len;i++) m+="a<&\"'>%é "[(i+len)%10]; escape_case(m); url_case(m);} vf::guard("length_sweep"); }
	// lengths around the block sizes the encoders work in (4096-byte blocks, 3-byte groups, 16 KiB stream buffers): every length within +-4 of k*1024 for k = 1..17, and of 32768, 65536
	{ int li=0; std::vector<int> big; for(int k=2;k<=17;k++) for(int d=-4;d<=4;d++) big.push_back(k*1024+d); for(int d=-4;d<=4;d++){ big.push_back(32768+d); big.push_back(65536+d); } for(size_t i=0;i<big.size();i++){ if((li++%n)!=sh) continue; int len=big[i]; std::string s; for(int j=0;j<len;j++) s+=(char)(j*7+len); b64_case(s,false); std::string m; for(int j=0;j<len;j++) m+="a<&\"'>%\xc3\xa9 "[(j+len)%10]; if(len<=20000){ escape_case(m); url_case(m); } vf::guard("block_size_lengths"); } }
	pieces_pass(sh,n);
	// decoders on arbitrary strings
	std::string ua; ua+="%+a4Gf"; ua+='\0'; ua+='\xff'; all_strings(vf::thorough()?6:5,ua,sh,n,[&](const std::string &s){ urldecode_case(s); });
	for(int x=0;x<256;x++) for(int y=0;y<256;y++){ if((x*256+y)%n!=sh) continue; std::string s="%"; s+=(char)x; s+=(char)y; urldecode_case(s); urldecode_case("a"+s+"b"); }
	std::string ba="A_-=%+z"; ba+='\0'; ba+='\xff'; all_strings(vf::thorough()?6:5,ba,sh,n,[&](const std::string &s){ b64_decode_arbitrary(s); });
}
static void replay(const std::string &file){ std::ifstream f(file); std::stringstream ss; ss<<f.rdbuf(); std::string l=ss.str(); std::string in=vf::unhex(vf::jfield(l,"input_hex"));
	if(vf::jfield(l,"case").size()){ std::string c=vf::jfield(l,"case"); in=vf::unhex(c.substr(c.rfind(' ')+1)); }
	escape_case(in); url_case(in); b64_case(in,true); urldecode_case(in); b64_decode_arbitrary(in); printf("replayed input %s\n",vf::hex(in).c_str()); }
int main(int argc,char **argv){ vf::init(argc,argv,"C15","exploration");
	if(!vf::C().replay_file.empty()){ replay(vf::C().replay_file); return vf::finish(); }
	vf::C().rule="every length within +-4 of k*1024 (k = 2..17), 32768 and 65536 through all base64url / escape / urlencode variants; objects written in 2 or 3 pieces with lengths from {0,1,2,5,63,64,126..130,200,255..257,300,1000}^2 (x 6 third pieces) through filters::escape/urlencode/base64_urlencode/raw against the whole-text result; every byte string of length 0..2 through escape (string, streambuf, ostream, filters::escape, text and textarea widgets), urlencode (4 paths) and base64url (string, pointer with canaries and exact heap buffer, ostream, filter), base64 length 3 ("+std::string(vf::thorough()?"all 2^24":"16^3 grid")+"), lengths 0..1024, every sink capacity k in 0..len(output) for the streaming variants, urldecode on all strings over {%,+,a,4,G,f,NUL,ff} and all %XY, base64 decode on all strings over {A,_,-,=,%,+,z,NUL,ff}. distinct = distinct (codec,output); non-trivial = all of them (each is a different output text)";
	vf::assume("reference codecs (un-escape, strict %XX decoder, RFC 4648 base64url) are written in the harness");
	vf::assume("pointer decode is only called when decoded_size()>=0 (its documented precondition)");
	vf::assume("urldecode of text with a malformed % escape is unspecified (only: no crash, output not longer than input)");
	int n=16; vf::parallel(n,n,[&](int sh){ run_shard(sh,n); },vf::thorough()?1200:200);
	vf::require_guard("sink_failures_seen"); vf::require_guard("urldecode_wellformed"); vf::require_guard("b64_arbitrary_decoded"); vf::require_guard("length_sweep"); vf::require_guard("piecewise_writes"); vf::require_guard("block_size_lengths");
	return vf::finish(); }
