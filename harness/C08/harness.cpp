// C08 - the cache stays within its limit; evicts expired first, then least-recently-used; memory is released.
// Same explicit-state engine as C07 with 5 keys, limits 1..4 (thorough ..8) and an alphabet focused on eviction;
// the model is nondeterministic among expired victims. Memory clause: fill/empty cycles on the process-shared cache
// with shmem available() compared at the same point of every cycle.
#include "cache_bfs.h"
#include "shmem_allocator.h"

using cm::Op;
// key families: plain one-letter keys, or binary keys "k\0" + ('a'+i) + (16*(8-i)): an embedded NUL after a common first byte and the SAME PJW hash value for all of
// them (('a'+i)*16 + 16*(8-i) is constant), so any two of them share a bucket at every table size and differ only after the NUL
static std::vector<std::string> key_family(bool binary){ std::vector<std::string> k; for(int i=0;i<9;i++){ if(!binary) k.push_back(std::string(1,(char)('a'+i))); else { std::string s("k\0",2); s+=(char)('a'+i); s+=(char)(16*(8-i)); k.push_back(s); } } return k; }
static std::vector<Op> alphabet(int nkeys,bool binary=false){ std::vector<Op> ops; std::vector<std::string> keys=key_family(binary);
	for(int k=0;k<nkeys;k++) for(int d=0;d<2;d++){ Op o; o.k=Op::STORE; o.key=keys[k]; o.dl= d?-1:2; if(k%2==0&&d==1) o.trig.insert("t"); ops.push_back(o); } { Op o; o.k=Op::STORE; o.key=keys[0]; o.dl=-2; ops.push_back(o); } /* a store that is already expired: occupies a slot, is the preferred victim, replaces the old entry */
	for(int k=0;k<nkeys;k++){ Op o; o.k=Op::FETCH; o.key=keys[k]; ops.push_back(o); }
	{ Op o; o.k=Op::TICK; o.n=1; ops.push_back(o); o.n=3; ops.push_back(o); } { Op o; o.k=Op::REMOVE; o.key=keys[0]; ops.push_back(o); } { Op o; o.k=Op::RISE; o.key="t"; ops.push_back(o); } { Op o; o.k=Op::STATS; ops.push_back(o); } return ops; }
static cb::Config config(const std::string &backend,unsigned limit,int nkeys,bool binary=false){ cb::Config c; c.backend=backend; c.limit=limit; c.ops=alphabet(nkeys,binary); std::vector<std::string> keys=key_family(binary); for(int k=0;k<nkeys;k++) c.keys.push_back(keys[k]); c.label=backend+"/limit="+std::to_string(limit)+"/keys="+std::to_string(nkeys)+(binary?"/binary-keys":""); c.shm=512*1024; return c; }

// memory clause: fill/empty cycles
namespace cppcms { namespace impl { struct process_settings { static shmem_control *process_memory; }; } }
static void cycles_pass(int sh,int n,int ncycles){ size_t shm=512*1024; // a dedicated process-shared cache per shard (the segment is per process after fork)
	booster::intrusive_ptr<cppcms::impl::base_cache> c=cppcms::impl::process_cache_factory(shm,0); cppcms::impl::shmem_control *mem=cppcms::impl::process_settings::process_memory; if(!mem){ fprintf(stderr,"harness error: no shmem control\n"); vf::C().harness_error=true; return; }
	size_t share=shm/20; size_t sizes[]={0,1,100,4096,share-200,share/2,share/4}; const char *how[]={"clear","rise","remove","overwrite"}; int idx=0;
	for(size_t si=0;si<sizeof(sizes)/sizeof(*sizes);si++) for(int h=0;h<4;h++){ if((idx++%n)!=sh) continue; size_t s=sizes[si]; int nent= s>=4096? 6 : 40; c->clear(); std::vector<size_t> avail; std::string cs="size="+std::to_string(s)+" entries="+std::to_string(nent)+" empty-by="+how[h]; vf::announce("cycles "+cs);
		for(int cyc=0;cyc<ncycles;cyc++){ std::set<std::string> tr; tr.insert("all"); for(int e=0;e<nent;e++){ std::string v(s,'x'); if(s) v[0]='v'; c->store("k"+std::to_string(e),v,tr,cm::FOREVER); }
			unsigned k=0,t=0; c->stats(k,t); vf::eval(); if((int)k!=nent){ vf::violation("cycles:store-lost","after filling "+std::to_string(nent)+" entries the cache reports "+std::to_string(k)+" keys in cycle "+std::to_string(cyc)+" ["+cs+"]","\"case\":"+vf::jstr(cs)); break; }
			{ std::string v; if(!c->fetch("k0",&v,0,0,0)||v.size()!=s){ vf::violation("cycles:fetch","stored entry not fetchable in cycle "+std::to_string(cyc)+" ["+cs+"]","\"case\":"+vf::jstr(cs)); break; } }
			if(h==0) c->clear(); else if(h==1) c->rise("all"); else if(h==2){ for(int e=0;e<nent;e++) c->remove("k"+std::to_string(e)); } else { /* overwrite: keep entries, next cycle replaces them */ }
			if(h!=3){ c->stats(k,t); if(k||t){ vf::violation("cycles:not-empty","after emptying the cache reports keys="+std::to_string(k)+" triggers="+std::to_string(t)+" ["+cs+"]","\"case\":"+vf::jstr(cs)); break; } }
			avail.push_back(mem->available()); }
		// available() at the same point of every cycle must be stationary from cycle 2 on
		{ std::string seq; for(size_t i=0;i<avail.size()&&i<24;i++) seq+=std::to_string(avail[i])+" "; if(getenv("C08_DEBUG")) fprintf(stderr,"%s: %s\n",cs.c_str(),seq.c_str());
		  if(h!=3){ for(size_t i=2;i<avail.size();i++) if(avail[i]!=avail[1]){ vf::violation("cycles:memory-leak","shared memory available after emptying in cycle "+std::to_string(i)+" is "+std::to_string(avail[i])+" but was "+std::to_string(avail[1])+" after cycle 1 ["+cs+"; first values: "+seq+"]","\"case\":"+vf::jstr(cs)); break; } }
		  else { // overwrite keeps the entries: allocator layout may wander, but the free amount must not keep shrinking
			size_t half=avail.size()/2; size_t min1=(size_t)-1,min2=(size_t)-1; for(size_t i=1;i<half;i++) min1=std::min(min1,avail[i]); for(size_t i=half;i<avail.size();i++) min2=std::min(min2,avail[i]); if(avail.size()>=8&&min2+4096<min1) vf::violation("cycles:memory-leak-overwrite","free shared memory keeps shrinking while the same keys are overwritten: min of first half "+std::to_string(min1)+", of second half "+std::to_string(min2)+" ["+cs+"; first values: "+seq+"]","\"case\":"+vf::jstr(cs)); } }
		vf::guard("cycles_run",avail.size()); vf::outcome("cyc:"+cs+":"+std::to_string(avail.empty()?0:avail.back())); c->clear(); }
	// oversized values: outside the statement's demands; only: nothing is corrupted and the cache keeps working afterwards
	if(sh==0){ c->clear(); std::set<std::string> none; std::set<size_t> stored_sizes; for(size_t big=share-64;big<=share*12;big+=share*3/2){ std::string v(big,'y'); c->store("big",v,none,cm::FOREVER); stored_sizes.insert(big); std::string g; bool hit=c->fetch("big",&g,0,0,0); if(hit&&(g.find_first_not_of('y')!=std::string::npos||!stored_sizes.count(g.size()))){ vf::violation("cycles:oversized-corrupt","an oversized value is returned corrupted","\"case\":\"oversized\""); } c->store("small","s",none,cm::FOREVER); std::string s2; if(!c->fetch("small",&s2,0,0,0)||s2!="s") vf::violation("cycles:after-oversized","cache does not work after an oversized store","\"case\":\"oversized\""); vf::guard("oversized_probes"); vf::eval(); } c->clear(); }
}

// ---- eviction under MEMORY pressure (process-shared cache, no entry limit) ---------------------------------------------------
// With an entry limit one store evicts one entry; under memory pressure one store may evict several. From a nearly full segment
// (prologue: 22 entries of 14000 bytes with mixed deadlines and a shuffled LRU order) every sequence of <= depth operations from
// {store(fresh key, 14000|40000 bytes, deadline now+2 | now+902 | none), overwrite(hot), fetch(f1), fetch(hot), tick(3)} is replayed
// on the cleared cache; the survivors are probed at the end of the replay (fetch of every key + stats). For a final store the set
// of evicted LIVE entries must be a prefix of the least-recently-used order of the live entries before it, and if any live entry
// was evicted no expired entry may be left. How MANY entries a store needs to evict is the allocator's business and is not modelled.
struct PState { std::vector<std::string> live_lru; /* live keys, least recently used first */ unsigned total; bool ok; };
struct POp { int kind; /*0 store fresh,1 overwrite hot,2 fetch,3 tick*/ size_t size; long dl; std::string key; std::string name; };
static std::vector<POp> palphabet(){ std::vector<POp> a; size_t sz[]={14000,40000}; long dl[]={2,902,0}; for(int s=0;s<2;s++) for(int d=0;d<3;d++){ POp o; o.kind=0; o.size=sz[s]; o.dl=dl[d]; o.name="store(fresh,"+std::to_string(sz[s])+"B,"+(dl[d]?"now+"+std::to_string(dl[d]):std::string("forever"))+")"; a.push_back(o); }
	{ POp o; o.kind=1; o.size=14000; o.dl=302; o.key="hot"; o.name="store(hot,14000B,now+302)"; a.push_back(o); } { POp o; o.kind=2; o.key="f1"; o.name="fetch(f1)"; a.push_back(o); } { POp o; o.kind=2; o.key="hot"; o.name="fetch(hot)"; a.push_back(o); } { POp o; o.kind=3; o.size=0; o.dl=0; o.name="tick(3)"; a.push_back(o); } return a; }
static PState prun(cppcms::impl::base_cache &c,const std::vector<POp> &alpha,const std::vector<int> &h,int variant,std::string *last_key){ c.clear(); g_now=1000000; std::set<std::string> none; std::vector<std::string> rec; std::set<std::string> all; PState r; r.ok=true;
	auto touch=[&](const std::string &k){ rec.erase(std::remove(rec.begin(),rec.end(),k),rec.end()); rec.push_back(k); all.insert(k); };
	auto st=[&](const std::string &k,size_t n,long dl){ std::string v(n,'p'); c.store(k,v,none,dl?g_now+dl:cm::FOREVER); touch(k); };
	// prologue: f0..f21; deadlines: every third one short (expires after the first tick), the others long and increasing; then the LRU order is shuffled by fetches
	for(int i=0;i<22;i++) st("f"+std::to_string(i),14000,(i%3==variant%3)?2:(500+3*i+2));
	st("hot",14000,302); /* the live entry with the EARLIEST deadline ... */ for(int i=20;i>=0;i-=4){ std::string v; if(c.fetch("f"+std::to_string(i),&v,0,0,0)) touch("f"+std::to_string(i)); } { std::string v; if(c.fetch("hot",&v,0,0,0)) touch("hot"); } /* ... is the most recently used one */
	if(variant>=3){ g_now+=3; }
	int fresh=0; for(size_t i=0;i<h.size();i++){ const POp &o=alpha[h[i]]; if(o.kind==0){ std::string k="n"+std::to_string(fresh++); st(k,o.size,o.dl); if(last_key) *last_key=k; } else if(o.kind==1){ st("hot",o.size,o.dl); if(last_key) *last_key="hot"; } else if(o.kind==2){ std::string v; if(c.fetch(o.key,&v,0,0,0)){ touch(o.key); if(v.size()!=14000&&v.size()!=40000) r.ok=false; } } else g_now+=3; }
	// probe (destructive for the LRU order, but the replay ends here)
	unsigned k=0,t=0; c.stats(k,t); r.total=k; std::set<std::string> live; for(std::set<std::string>::iterator i=all.begin();i!=all.end();++i){ std::string v; if(c.fetch(*i,&v,0,0,0)){ live.insert(*i); if(v.find_first_not_of('p')!=std::string::npos) r.ok=false; } }
	for(size_t i=0;i<rec.size();i++) if(live.count(rec[i])) r.live_lru.push_back(rec[i]); return r; }
static void pressure_pass(int sh,int n,int depth){ booster::intrusive_ptr<cppcms::impl::base_cache> c=cppcms::impl::process_cache_factory(512*1024,0); std::vector<POp> alpha=palphabet(); uint64_t tick=0;
	for(int variant=0;variant<6;variant++){ std::vector<int> h; std::function<void(const PState&,int)> rec=[&](const PState &parent,int d){ if(d==depth) return; for(size_t o=0;o<alpha.size();o++){ if(d==0&&(int)((o+variant)%n)!=sh) continue; h.push_back((int)o); std::string hs; for(size_t i=0;i<h.size();i++){ if(i) hs+=" ; "; hs+=alpha[h[i]].name; } std::string cs="pressure variant="+std::to_string(variant)+" ["+hs+"]"; vf::announce(cs); vf::eval();
			std::string lk; PState s=prun(*c,alpha,h,variant,&lk); vf::C().traces++; vf::C().transitions+=h.size(); if(!s.ok) vf::violation("pressure:corrupt-value","a fetched value is corrupted ["+cs+"]","\"case\":"+vf::jstr(cs));
			if(alpha[o].kind<=1){ // a store: which live entries went?
				std::vector<std::string> before; for(size_t i=0;i<parent.live_lru.size();i++) if(parent.live_lru[i]!=lk) before.push_back(parent.live_lru[i]); std::set<std::string> after(s.live_lru.begin(),s.live_lru.end()); size_t evicted=0; bool gap=false; std::string first_kept,wrong;
				for(size_t i=0;i<before.size();i++){ if(!after.count(before[i])){ evicted++; if(!first_kept.empty()&&wrong.empty()){ gap=true; wrong=before[i]; } } else if(first_kept.empty()) first_kept=before[i]; }
				for(std::set<std::string>::iterator i=after.begin();i!=after.end();++i) if(*i!=lk&&std::find(before.begin(),before.end(),*i)==before.end()) vf::violation("pressure:resurrected","an entry that was gone is back after a store: "+*i+" ["+cs+"]","\"case\":"+vf::jstr(cs));
				if(gap) vf::violation("pressure:not-lru","a store under memory pressure evicted the live entry '"+wrong+"' while the less recently used live entry '"+first_kept+"' is still cached ["+cs+"]","\"case\":"+vf::jstr(cs));
				unsigned expired_left= s.total>=s.live_lru.size()? s.total-(unsigned)s.live_lru.size():0; if(evicted&&expired_left) vf::violation("pressure:live-before-expired","a store evicted "+std::to_string(evicted)+" live entr"+(evicted>1?"ies":"y")+" although "+std::to_string(expired_left)+" expired entr"+(expired_left>1?"ies are":"y is")+" still held ["+cs+"]","\"case\":"+vf::jstr(cs));
				if(evicted) vf::guard("pressure_stores_evicting_live_entries"); if(evicted>=2) vf::guard("pressure_stores_evicting_several_live_entries"); unsigned exp_before= parent.total>=parent.live_lru.size()? parent.total-(unsigned)parent.live_lru.size():0; if(evicted&&exp_before) vf::guard("pressure_stores_evicting_expired_and_live_entries"); vf::guard("pressure_stores");
				vf::outcome("pr|"+std::to_string(variant)+"|"+std::to_string(evicted)+"|"+std::to_string(exp_before)+"|"+std::to_string(expired_left));
				if(evicted&&vf::sample_tick(tick,97)) vf::sample("{\"case\":"+vf::jstr(cs)+",\"live_before\":"+std::to_string(before.size())+",\"expired_before\":"+std::to_string(exp_before)+",\"live_evicted\":"+std::to_string(evicted)+",\"result\":\"evicted live entries are the least recently used ones; no expired entry left\"}",50); }
			rec(s,d+1); h.pop_back(); } };
		std::string dummy; PState root=prun(*c,alpha,std::vector<int>(),variant,&dummy); if(root.live_lru.size()<15){ fprintf(stderr,"harness error: pressure prologue holds only %zu live entries\n",root.live_lru.size()); vf::C().harness_error=true; } rec(root,0); }
	c->clear(); }

int main(int argc,char **argv){ vf::init(argc,argv,"C08","model_checking"); bool th=vf::thorough();
	std::vector<cb::Config> cfgs; const char *be[]={"thread_shared","process_shared"}; for(int b=0;b<2;b++) for(unsigned l=1;l<=(th?8u:3u);l++){ int nkeys= l<=3? (int)l+2 : (l<=5?(int)l+1:9); if(nkeys>9) nkeys=9; if(b==1&&!th&&l!=2) continue; cfgs.push_back(config(be[b],l,nkeys)); } for(int b=0;b<2;b++) cfgs.push_back(config(be[b],b?3:2,b?5:4,true)); /* binary keys sharing one bucket */
	if(!vf::C().replay_file.empty()){ std::ifstream f(vf::C().replay_file); std::stringstream ss; ss<<f.rdbuf(); std::string l=ss.str(); std::string label=vf::jfield(l,"config"); size_t p=l.find("\"history\":["); std::vector<int> h; if(p!=std::string::npos){ size_t e=l.find(']',p); h=vf::parse_choices(l.substr(p+11,e-p-11)); }
		for(int bin=0;bin<2;bin++) for(int b=0;b<2;b++) for(unsigned lim=1;lim<=8;lim++) for(int nk=2;nk<=9;nk++){ cb::Config c=config(be[b],lim,nk,bin!=0); if(c.label!=label) continue; cb::RunResult r=cb::run_history(c,h,true); for(size_t i=0;i<r.trace.size();i++) printf("  %s\n",r.trace[i].c_str()); printf("replay: %s\n",r.ok?"history conforms":r.what.c_str()); if(!r.ok) vf::violation(c.label+":"+r.sig,r.what,"\"config\":"+vf::jstr(label)); } return vf::finish(); }
	int depth=th?7:5, nd=th?5:4; double t_budget=vf::C().budget_s*0.55;
	vf::C().rule="states = canonical forms of the set-valued reference model (entries, deadlines relative to now, LRU order) reached by replaying histories on the real cache; alphabet: store(k, now+2 | no deadline [+ shared trigger]) for limit+2 keys (plain, and in two configurations binary keys with an embedded NUL and equal hash values), one already-expired store, fetch(k), tick 1/3, remove(a), rise(t), stats; oracle: size <= limit after every history, every fetch/stats result admissible under 'expired first, then least recently stored-or-fetched' (any expired victim admissible), destructive audit of every key; memory clause: 28 fill/empty cycle scenarios on a 512 KiB process-shared segment with available() compared per cycle; memory-pressure eviction: from a nearly full 512 KiB segment (6 prologue variants: 23 entries of 14000 bytes, mixed deadlines, shuffled LRU, expired entries present) every sequence of <= 4 (5) operations {store fresh 14000|40000 bytes x 3 deadlines, overwrite, 2 fetches, tick}: live entries evicted by a store form a prefix of the LRU order, none while an expired entry is left";
	vf::assume("virtual clock via interposed time(); the victim among several expired entries is not specified (set-valued model)"); vf::assume("behaviour for values that do not fit the shared segment is outside the statement: only non-corruption and continued service are checked");
	vf::parallel(cfgs.size(),16,[&](int i){ cb::Stats st; int dep= cfgs[i].limit<=4? depth : (th?5:depth); cb::bfs(cfgs[i],dep,st,[&](){ return vf::elapsed()>t_budget; }); vf::C().states+=st.states; vf::C().transitions+=st.transitions; vf::C().traces+=st.traces; vf::guard(("bfs_depth_completed:"+cfgs[i].label).c_str(),st.depth_done); if(st.fixpoint) vf::guard(("bfs_fixpoint:"+cfgs[i].label).c_str()); },th?1400:110);
	{ std::vector<cb::Config> nc; nc.push_back(config("thread_shared",2,4)); nc.push_back(config("thread_shared",1,3)); if(th){ nc.push_back(config("thread_shared",3,5)); nc.push_back(config("process_shared",2,4)); }
	  for(size_t k=0;k<nc.size();k++) vf::parallel(16,16,[&](int sh){ cb::Stats st; for(int d=1;d<=nd;d++) cb::nodedup(nc[k],d,sh,16,st); vf::C().traces+=st.traces; },th?1400:110); }
	vf::parallel(16,16,[&](int sh){ cycles_pass(sh,16,th?200:20); pressure_pass(sh,16,th?5:4); },th?1400:110);
	vf::C().extra["bound"]="{\"bfs_max_depth\":"+std::to_string(depth)+",\"nodedup_depth\":"+std::to_string(nd)+",\"configs\":"+std::to_string(cfgs.size())+"}";
	vf::require_guard("nodedup_sequences"); vf::require_guard("cycles_run"); vf::require_guard("oversized_probes"); vf::require_guard("pressure_stores_evicting_live_entries"); vf::require_guard("pressure_stores_evicting_several_live_entries"); vf::require_guard("pressure_stores_evicting_expired_and_live_entries");
	return vf::finish(); }
