#!/bin/bash
# Offline setup: build the three library flavours of /repo and every harness once.
cd "$(dirname "$0")" || exit 2
set -e
for fl in asan rel tsan; do ./build_flavour.sh $fl & done; wait
for d in harness/C*/; do id=$(basename $d); VERIF_BUILD_ONLY=1 ./check $id --build-only >/dev/null 2>&1 & done; wait
echo setup done
