#!/bin/bash
# build_flavour.sh <asan|tsan|rel>
# (Re)build the static cppcms/booster libraries of /repo's CURRENT working tree in
# /verif/build/<flavour>. Idempotent; serialised by flock so parallel checks do not collide.
set -e
FL="$1"
VERIF="$(cd "$(dirname "$0")" && pwd)"
REPO="${VERIF_REPO:-/repo}"
B="$VERIF/build/$FL"
mkdir -p "$VERIF/build"
case "$FL" in
 asan) CXXF="-O1 -g1 -fsanitize=address,undefined -fno-sanitize-recover=undefined -fno-sanitize=nonnull-attribute,vptr -fno-omit-frame-pointer" ;;
 tsan) CXXF="-O1 -g1 -fsanitize=thread" ;;
 rel)  CXXF="-O2" ;;
 *) echo "unknown flavour $FL" >&2; exit 2 ;;
esac
CXXF="$CXXF -DNDEBUG -DCPPCMS_VERIF -Wno-error -w"
(
 flock 9
 if [ ! -f "$B/build.ninja" ]; then
   cmake -G Ninja -S "$REPO" -B "$B" -DDISABLE_SHARED=ON -DCMAKE_BUILD_TYPE= \
     -DCMAKE_CXX_FLAGS="$CXXF" -DCMAKE_C_FLAGS="$CXXF" >"$B.configure.log" 2>&1 || { cat "$B.configure.log" >&2; exit 2; }
 fi
 ninja -C "$B" cppcms-static booster-static >"$B.build.log" 2>&1 || { tail -50 "$B.build.log" >&2; exit 2; }
) 9>"$VERIF/build/.lock.$FL"
